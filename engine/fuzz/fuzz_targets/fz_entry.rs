#![no_main]
// C04 (+ C02/C06 on the fixture): a document reaches a handler only through the entry point of
// the handler's own kind.  The same document is offered to every generated entry point
// (instantiate, execute, query, sudo, migrate); whenever one of them accepts it, exactly one
// handler must have run and it must be annotated with that entry point's kind, and its wire
// name must be the document's single top-level key (enum kinds).  Never panics.
use arbitrary::Unstructured;
use libfuzzer_sys::fuzz_target;
use svfuzz::*;
use sylvia::cw_std::testing::{message_info, mock_dependencies, mock_env};
use sylvia::cw_std::{from_json, Addr};
use sylvia::types::ContractApi;

type WExec = <CtrC as ContractApi>::ContractExec;
type WQuery = <CtrC as ContractApi>::ContractQuery;
type WSudo = <CtrC as ContractApi>::ContractSudo;
type Inst = <CtrC as ContractApi>::Instantiate;
type Migr = <CtrC as ContractApi>::Migrate;

const NAMES: &[&str] = &[
    "add_member2", "x", "list_all10", "list_all_10", "freeze", "burn_from2", "ping", "balance_of", "mint", "set_v2_admin", "admin", "instantiate",
    "migrate", "d_raw", "_phantom",
];
const BODIES: &[&str] = &[
    "{}",
    "{\"who\":\"w\",\"amount\":7}",
    "{\"who\":\"w\"}",
    "{\"amount\":7}",
    "{\"addr\":\"a\",\"weight\":1,\"extra\":[]}",
    "{\"start\":null,\"limit\":3}",
    "{\"flag\":true}",
    "{\"owner\":\"o\",\"init\":{\"id\":1,\"label\":\"l\",\"opt\":null}}",
    "{\"admin\":null,\"rec\":{\"id\":1,\"label\":\"l\",\"opt\":true}}",
];

fn doc_of(u: &mut Unstructured) -> String {
    match u.int_in_range(0..=5).unwrap_or(0) {
        0 => {
            let n = u.len();
            String::from_utf8_lossy(u.bytes(n).unwrap_or(b"")).to_string()
        }
        1 => BODIES[u.choose_index(BODIES.len()).unwrap_or(0)].to_string(),
        _ => {
            let name = NAMES[u.choose_index(NAMES.len()).unwrap_or(0)];
            let body = BODIES[u.choose_index(BODIES.len()).unwrap_or(0)];
            format!("{{\"{name}\":{body}}}")
        }
    }
}

fn top_key(doc: &str) -> Option<String> {
    match serde_json::from_str::<serde_json::Value>(doc) {
        Ok(serde_json::Value::Object(o)) if o.len() == 1 => o.keys().next().cloned(),
        _ => None,
    }
}

fn check(kind: &str, doc: &str, enum_kind: bool) {
    let log = take_log();
    assert!(log.len() == 1, "C04/C02 violated: {} handlers ran for {doc} at the {kind} entry point: {log:?}", log.len());
    let k = kind_of_log(&log[0]);
    assert!(k == kind, "C04 violated: document {doc} sent to the {kind} entry point ran the {k} handler {}", log[0]);
    if enum_kind {
        // wire name of the handler that ran == the document's key (list_all_10 serialises as list_all10)
        // (documents serde_json does not parse, e.g. raw control characters inside strings that
        // cosmwasm's decoder tolerates, give no independent key: only the kind is checked)
        let Some(key) = top_key(doc) else { return };
        let head = log[0].split('(').next().unwrap_or("").rsplit("::").next().unwrap_or("").to_string();
        let want = if head == "list_all_10" { "list_all10".to_string() } else { head };
        assert!(key == want, "C02 violated: document keyed {key} ran handler {}", log[0]);
    }
}

fuzz_target!(|data: &[u8]| {
    let mut u = Unstructured::new(data);
    let doc = doc_of(&mut u);
    let doc = doc.as_str();
    let bytes = doc.as_bytes();
    let info = message_info(&Addr::unchecked("s"), &[]);
    take_log();
    if let Ok(m) = from_json::<Inst>(bytes) {
        let mut deps = mock_dependencies();
        if entry_points::instantiate(deps.as_mut(), mock_env(), info.clone(), m).is_ok() {
            check("instantiate", doc, false);
        }
        take_log();
    }
    if let Ok(m) = from_json::<WExec>(bytes) {
        let mut deps = mock_dependencies();
        if entry_points::execute(deps.as_mut(), mock_env(), info.clone(), m).is_ok() {
            check("exec", doc, true);
        }
        take_log();
    }
    if let Ok(m) = from_json::<WQuery>(bytes) {
        let deps = mock_dependencies();
        if entry_points::query(deps.as_ref(), mock_env(), m).is_ok() {
            check("query", doc, true);
        }
        take_log();
    }
    if let Ok(m) = from_json::<WSudo>(bytes) {
        let mut deps = mock_dependencies();
        if entry_points::sudo(deps.as_mut(), mock_env(), m).is_ok() {
            check("sudo", doc, true);
        }
        take_log();
    }
    if let Ok(m) = from_json::<Migr>(bytes) {
        let mut deps = mock_dependencies();
        if entry_points::migrate(deps.as_mut(), mock_env(), m).is_ok() {
            check("migrate", doc, false);
        }
        take_log();
    }
});
