#![no_main]
// C05(a): assert_no_intersection panics iff two of the sorted, duplicate-free lists share a string.
use libfuzzer_sys::fuzz_target;

fuzz_target!(|data: &[u8]| {
    // decode: first byte = number of lists (0..=6); the rest is split into words by 0xff and
    // into lists by 0xfe; words are lossy UTF-8
    if data.is_empty() {
        return;
    }
    let n = (data[0] % 7) as usize;
    let mut lists: Vec<Vec<String>> = vec![vec![]; n];
    if n > 0 {
        for (i, chunk) in data[1..].split(|b| *b == 0xfe).enumerate() {
            for w in chunk.split(|b| *b == 0xff) {
                lists[i % n].push(String::from_utf8_lossy(w).to_string());
            }
        }
    }
    for l in lists.iter_mut() {
        l.sort();
        l.dedup();
    }
    let refs: Vec<Vec<&str>> = lists.iter().map(|l| l.iter().map(|s| s.as_str()).collect()).collect();
    let slices: Vec<&[&str]> = refs.iter().map(|v| v.as_slice()).collect();
    macro_rules! go {
        ($n:expr) => {{
            let arr: [&[&str]; $n] = std::array::from_fn(|i| slices[i]);
            std::panic::catch_unwind(|| sylvia::utils::assert_no_intersection(arr)).is_err()
        }};
    }
    let hook = std::panic::take_hook();
    std::panic::set_hook(Box::new(|_| {}));
    let panicked = match n {
        0 => go!(0),
        1 => go!(1),
        2 => go!(2),
        3 => go!(3),
        4 => go!(4),
        5 => go!(5),
        _ => go!(6),
    };
    std::panic::set_hook(hook);
    let mut overlap = false;
    for i in 0..lists.len() {
        for j in i + 1..lists.len() {
            if lists[i].iter().any(|s| lists[j].contains(s)) {
                overlap = true;
            }
        }
    }
    assert_eq!(panicked, overlap, "C05 violated: lists={lists:?} panicked={panicked} overlap={overlap}");
});
