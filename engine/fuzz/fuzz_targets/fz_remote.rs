#![no_main]
// C20: Remote<T> encodes as {"addr": <address>} whatever T, owned or borrowed, and decodes back.
use libfuzzer_sys::fuzz_target;
use sylvia::cw_std::{from_json, to_json_string, Addr};
use sylvia::types::Remote;

trait Iface {
    type Error;
    type P;
}

fuzz_target!(|data: &[u8]| {
    let s = String::from_utf8_lossy(data).to_string();
    let addr = Addr::unchecked(s.clone());
    let a = to_json_string(&Remote::<()>::new(addr.clone())).unwrap();
    let b = to_json_string(&Remote::<str>::borrowed(&addr)).unwrap();
    let c = to_json_string(&Remote::<dyn Iface<Error = (), P = u8>>::new(addr.clone())).unwrap();
    assert_eq!(a, b, "C20 violated: encoding depends on type / ownership");
    assert_eq!(a, c, "C20 violated: encoding depends on type");
    let v: serde_json::Value = serde_json::from_str(&a).expect("valid json");
    assert_eq!(v, serde_json::json!({"addr": s}), "C20 violated: shape");
    let text = serde_json::json!({"addr": s}).to_string();
    let back: Remote<'static, dyn Iface<Error = (), P = u8>> = from_json(text.as_bytes()).expect("C20 violated: model text does not decode");
    let got: &Addr = back.as_ref();
    assert_eq!(got.as_str(), s, "C20 violated: decoded address differs");
});
