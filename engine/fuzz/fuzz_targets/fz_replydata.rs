#![no_main]
// C09: reply data reaches the handler according to the declared data mode; undecodable data
// is an error and the handler is not invoked.
use libfuzzer_sys::fuzz_target;
use svfuzz::*;
use sylvia::cw_std::testing::{mock_dependencies, mock_env};
use sylvia::cw_std::{from_json, Binary, Reply, SubMsgResponse, SubMsgResult};
use sylvia::cw_utils::{parse_execute_response_data, parse_instantiate_response_data};

fn run(id: u64, data: Option<Vec<u8>>) -> (bool, Vec<String>) {
    take_log();
    let mut deps = mock_dependencies();
    #[allow(deprecated)]
    let reply = Reply {
        id,
        payload: Binary::from(b"p".to_vec()),
        gas_used: 1,
        result: SubMsgResult::Ok(SubMsgResponse { events: vec![], data: data.map(Binary::from), msg_responses: vec![] }),
    };
    let r = sv::dispatch_reply(deps.as_mut(), mock_env(), reply, CtrC::new());
    (r.is_ok(), take_log())
}

fuzz_target!(|bytes: &[u8]| {
    if bytes.is_empty() {
        return;
    }
    // first byte: absent / present (+ optional wrapping into a well-formed envelope)
    let sel = bytes[0];
    let body = &bytes[1..];
    let data: Option<Vec<u8>> = match sel % 4 {
        0 => None,
        1 => Some(body.to_vec()),
        2 => {
            // well-formed execute envelope around the body
            let mut v = vec![0x0a];
            let mut n = body.len();
            loop {
                let b = (n & 0x7f) as u8;
                n >>= 7;
                if n == 0 {
                    v.push(b);
                    break;
                }
                v.push(b | 0x80);
            }
            v.extend_from_slice(body);
            Some(v)
        }
        _ => {
            // well-formed instantiate envelope: address "a", data = body
            let mut v = vec![0x0a, 1, b'a', 0x12];
            let mut n = body.len();
            loop {
                let b = (n & 0x7f) as u8;
                n >>= 7;
                if n == 0 {
                    v.push(b);
                    break;
                }
                v.push(b | 0x80);
            }
            v.extend_from_slice(body);
            Some(v)
        }
    };
    let b64 = |d: &[u8]| Binary::from(d.to_vec()).to_base64();
    // raw
    let (ok, log) = run(sv::D_RAW_REPLY_ID, data.clone());
    match &data {
        None => assert!(!ok && log.is_empty(), "C09 raw: missing data must be an error without handler"),
        Some(d) => assert!(ok && log == vec![format!("d_raw:{}", b64(d))], "C09 raw: bytes must pass through, got ok={ok} log={log:?}"),
    }
    // raw, opt
    let (ok, log) = run(sv::D_RAW_OPT_REPLY_ID, data.clone());
    assert!(ok && log == vec![format!("d_raw_opt:{:?}", data.as_ref().map(|d| b64(d)))], "C09 raw,opt: got ok={ok} log={log:?}");
    // typed / opt
    let typed: Result<Option<Rec>, ()> = match &data {
        None => Ok(None),
        Some(d) => match parse_execute_response_data(d) {
            Err(_) => Err(()),
            Ok(env) => match env.data {
                None => Ok(None),
                Some(inner) => from_json::<Rec>(&inner).map(Some).map_err(|_| ()),
            },
        },
    };
    let (ok, log) = run(sv::D_TYPED_REPLY_ID, data.clone());
    match &typed {
        Ok(Some(rec)) => assert!(ok && log == vec![format!("d_typed:{}", serde_json::to_string(rec).unwrap())], "C09 typed: got ok={ok} log={log:?}"),
        _ => assert!(!ok && log.is_empty(), "C09 typed: missing / undecodable data must be an error without handler, got ok={ok} log={log:?}"),
    }
    let (ok, log) = run(sv::D_OPT_REPLY_ID, data.clone());
    match (&data, &typed) {
        (None, _) => assert!(ok && log == vec!["d_opt:null".to_string()], "C09 opt: absent data must be None, got ok={ok} log={log:?}"),
        (Some(_), Ok(Some(rec))) => assert!(ok && log == vec![format!("d_opt:{}", serde_json::to_string(&Some(rec)).unwrap())], "C09 opt: got ok={ok} log={log:?}"),
        // well-formed envelope without inner data under `opt`: unspecified (None or missing-data error)
        (Some(_), Ok(None)) => assert!((!ok && log.is_empty()) || (ok && log == vec!["d_opt:null".to_string()]), "C09 opt/empty envelope: got ok={ok} log={log:?}"),
        (Some(_), Err(())) => assert!(!ok && log.is_empty(), "C09 opt: undecodable data must be an error without handler, got ok={ok} log={log:?}"),
    }
    // instantiate / instantiate, opt
    let inst = data.as_ref().map(|d| parse_instantiate_response_data(d).map_err(|_| ()));
    let show = |r: &sylvia::cw_utils::MsgInstantiateContractResponse| (r.contract_address.clone(), r.data.clone().map(|x| x.to_base64()));
    let (ok, log) = run(sv::D_INST_REPLY_ID, data.clone());
    match &inst {
        Some(Ok(r)) => assert!(ok && log == vec![format!("d_inst:{}:{:?}", r.contract_address, r.data.clone().map(|d| d.to_base64()))], "C09 instantiate: got ok={ok} log={log:?}"),
        _ => assert!(!ok && log.is_empty(), "C09 instantiate: missing / undecodable data must be an error without handler, got ok={ok} log={log:?}"),
    }
    let (ok, log) = run(sv::D_INST_OPT_REPLY_ID, data.clone());
    match &inst {
        None => assert!(ok && log == vec!["d_inst_opt:None".to_string()], "C09 instantiate,opt: absent => None, got ok={ok} log={log:?}"),
        Some(Ok(r)) => assert!(ok && log == vec![format!("d_inst_opt:{:?}", Some(show(r)))], "C09 instantiate,opt: got ok={ok} log={log:?}"),
        Some(Err(())) => assert!(!ok && log.is_empty(), "C09 instantiate,opt: undecodable => error, got ok={ok} log={log:?}"),
    }
});
