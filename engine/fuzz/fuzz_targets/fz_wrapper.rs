#![no_main]
// C03: the contract-level message accepts a document iff exactly one part accepts it, decodes
// to that part's value, re-encodes to the same JSON, reaches the same handler, never panics.
use arbitrary::Unstructured;
use libfuzzer_sys::fuzz_target;
use svfuzz::*;
use sylvia::cw_std::testing::{message_info, mock_dependencies, mock_env};
use sylvia::cw_std::{from_json, to_json_string, Addr};
use sylvia::types::ContractApi;

type WExec = <CtrC as ContractApi>::ContractExec;
type WQuery = <CtrC as ContractApi>::ContractQuery;
type WSudo = <CtrC as ContractApi>::ContractSudo;
type PExec = <CtrC as ContractApi>::Exec;
type PQuery = <CtrC as ContractApi>::Query;
type PSudo = <CtrC as ContractApi>::Sudo;
type AExec = <CtrC as if_a::sv::InterfaceMessagesApi>::Exec;
type AQuery = <CtrC as if_a::sv::InterfaceMessagesApi>::Query;
type ASudo = <CtrC as if_a::sv::InterfaceMessagesApi>::Sudo;

const NAMES: &[&str] = &[
    "add_member2", "add_member_2", "x", "list_all_10", "list_all10", "freeze", "burn_from2", "burn_from_2", "ping", "balance_of", "mint",
    "set_v2_admin", "admin", "AddMember2", "_phantom", "__phantom", "instantiate",
];
const KEYS: &[&str] = &["addr", "weight", "extra", "start", "limit", "flag", "who", "amount", "admin", "rec", "id", "label", "opt", "unknown"];

fn value(u: &mut Unstructured, depth: u32) -> String {
    match u.int_in_range(0..=9).unwrap_or(0) {
        0 => "null".into(),
        1 => u.arbitrary::<u64>().unwrap_or(0).to_string(),
        2 => {
            let n = u.int_in_range(0..=6).unwrap_or(0);
            let n = n.min(u.len());
            serde_json::to_string(&String::from_utf8_lossy(u.bytes(n).unwrap_or(b"")).to_string()).unwrap()
        }
        3 => "true".into(),
        4 => "[]".into(),
        5 if depth < 3 => format!("[{}]", value(u, depth + 1)),
        6 if depth < 3 => object(u, depth + 1),
        7 => "\"someone\"".into(),
        8 => "{\"id\":1,\"label\":\"l\",\"opt\":null}".into(),
        _ => "{}".into(),
    }
}

fn object(u: &mut Unstructured, depth: u32) -> String {
    let n = u.int_in_range(0..=4).unwrap_or(0);
    let mut parts = vec![];
    for _ in 0..n {
        let k = if depth == 0 { NAMES[u.choose_index(NAMES.len()).unwrap_or(0)] } else { KEYS[u.choose_index(KEYS.len()).unwrap_or(0)] };
        parts.push(format!("\"{k}\":{}", value(u, depth + 1)));
    }
    format!("{{{}}}", parts.join(","))
}

/// Has the document duplicate keys (the recorded known finding of C03)?  Conservative:
/// compares the number of `"key":` occurrences with the keys of the parsed value.
fn has_duplicate_keys(text: &str) -> bool {
    fn count(v: &serde_json::Value) -> usize {
        match v {
            serde_json::Value::Object(o) => o.len() + o.values().map(count).sum::<usize>(),
            serde_json::Value::Array(a) => a.iter().map(count).sum(),
            _ => 0,
        }
    }
    match serde_json::from_str::<serde_json::Value>(text) {
        Ok(v) => text.matches("\":").count() > count(&v),
        Err(_) => false,
    }
}

fn has_non_integer_number(v: &serde_json::Value) -> bool {
    match v {
        serde_json::Value::Number(n) => !(n.is_u64() || n.is_i64()),
        serde_json::Value::Array(a) => a.iter().any(has_non_integer_number),
        serde_json::Value::Object(o) => o.values().any(has_non_integer_number),
        _ => false,
    }
}

macro_rules! check {
    ($doc:expr, $w:ty, [$($p:ty),*], $disp:expr) => {{
        let bytes = $doc.as_bytes();
        let mut accepting: Vec<(String, String)> = vec![];
        $(
            if let Ok(m) = from_json::<$p>(bytes) {
                accepting.push((format!("{m:?}"), to_json_string(&m).unwrap()));
            }
        )*
        let w = from_json::<$w>(bytes);
        match (accepting.len(), w) {
            (1, Ok(w)) => {
                assert_eq!(to_json_string(&w).unwrap(), accepting[0].1, "C03 violated: wrapper re-encodes differently for {}", $doc);
                #[allow(clippy::redundant_closure_call)]
                ($disp)(w);
            }
            // "part accepts => wrapper accepts" is a statement about JSON documents: cosmwasm's
            // decoder skips the value of an unknown field without validating it, so a part can
            // "accept" text that is not JSON at all (`{"ping":{"x": t{0&&"...`), which the
            // wrapper -- it parses the whole text first -- rightly refuses
            (1, Err(e)) => {
                if let Ok(v) = serde_json::from_str::<serde_json::Value>($doc) {
                    // recorded finding (wrapper-rejects:extra-field-number): an ignored field holding a
                    // float / over-long integer is skipped by the part but parsed by the wrapper
                    if !has_non_integer_number(&v) {
                        panic!("C03 violated: exactly one part accepts {} but the wrapper rejects it: {e}", $doc)
                    }
                }
            }
            (_, Ok(w)) => {
                if !has_duplicate_keys($doc) {
                    panic!("C03 violated: wrapper accepts {} as {w:?} although {} parts accept it", $doc, accepting.len());
                }
            }
            (_, Err(_)) => {}
        }
    }};
}

fuzz_target!(|data: &[u8]| {
    let mut u = Unstructured::new(data);
    let doc = match u.int_in_range(0..=3).unwrap_or(0) {
        0 => {
            let n = u.len();
            String::from_utf8_lossy(u.bytes(n).unwrap_or(b"")).to_string()
        }
        _ => object(&mut u, 0),
    };
    let doc = doc.as_str();
    take_log();
    check!(doc, WExec, [PExec, AExec], |w: WExec| {
        let mut deps = mock_dependencies();
        let _ = w.dispatch(&CtrC::new(), (deps.as_mut(), mock_env(), message_info(&Addr::unchecked("s"), &[])));
        let log = take_log();
        assert!(log.len() == 1, "C03 violated: {} handlers ran for {doc}", log.len());
    });
    check!(doc, WQuery, [PQuery, AQuery], |w: WQuery| {
        let deps = mock_dependencies();
        let _ = w.dispatch(&CtrC::new(), (deps.as_ref(), mock_env()));
        let log = take_log();
        assert!(log.len() == 1, "C03 violated: {} handlers ran for {doc}", log.len());
    });
    check!(doc, WSudo, [PSudo, ASudo], |w: WSudo| {
        let mut deps = mock_dependencies();
        let _ = w.dispatch(&CtrC::new(), (deps.as_mut(), mock_env()));
        let log = take_log();
        assert!(log.len() == 1, "C03 violated: {} handlers ran for {doc}", log.len());
    });
});
