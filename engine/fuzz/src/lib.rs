//! Fixture for the coverage-guided fuzz targets (engine E5): a hand-written contract using
//! the real macros -- two interfaces, digit-bearing and multi-word names, a generic
//! parameter, reply handlers with every data mode.

#![allow(clippy::all, dead_code, unused_variables, deprecated)]

use cosmwasm_schema::cw_serde;
use std::cell::RefCell;
use sylvia::ctx::{ExecCtx, InstantiateCtx, QueryCtx, ReplyCtx, SudoCtx};
use sylvia::cw_std::{Binary, Response, StdError, StdResult};
use sylvia::cw_utils::MsgInstantiateContractResponse;
use sylvia::{contract, entry_points, interface};

thread_local! {
    pub static LOG: RefCell<Vec<String>> = const { RefCell::new(Vec::new()) };
}
pub fn log(s: String) {
    LOG.with(|l| l.borrow_mut().push(s));
}
pub fn take_log() -> Vec<String> {
    LOG.with(|l| std::mem::take(&mut *l.borrow_mut()))
}

#[cw_serde]
pub struct Rec {
    pub id: u32,
    pub label: String,
    pub opt: Option<bool>,
}
impl sylvia::cw_std::CustomMsg for Rec {}

#[cw_serde]
pub struct Out {
    pub who: String,
}

pub mod if_a {
    use super::*;
    #[interface]
    pub trait IfA {
        type Error: From<StdError>;
        #[sv::msg(exec)]
        fn burn_from2(&self, ctx: ExecCtx, who: String, amount: u64) -> Result<Response, Self::Error>;
        #[sv::msg(exec)]
        fn ping(&self, ctx: ExecCtx) -> Result<Response, Self::Error>;
        #[sv::msg(query)]
        fn balance_of(&self, ctx: QueryCtx, who: String) -> Result<Out, Self::Error>;
        #[sv::msg(sudo)]
        fn mint(&self, ctx: SudoCtx, amount: u64) -> Result<Response, Self::Error>;
    }
}

pub mod if_b {
    use super::*;
    #[interface]
    pub trait IfB {
        type Error: From<StdError>;
        #[sv::msg(exec)]
        fn set_v2_admin(&self, ctx: ExecCtx, #[serde(default)] admin: Option<String>, rec: Rec) -> Result<Response, Self::Error>;
        #[sv::msg(query)]
        fn admin(&self, ctx: QueryCtx) -> Result<Out, Self::Error>;
        #[sv::msg(sudo)]
        fn mint(&self, ctx: SudoCtx, amount: u64) -> Result<Response, Self::Error>;
    }
}

pub struct Ctr<T> {
    _p: std::marker::PhantomData<T>,
}

impl<T: sylvia::types::CustomMsg + 'static> if_a::IfA for Ctr<T> {
    type Error = StdError;
    fn burn_from2(&self, ctx: ExecCtx, who: String, amount: u64) -> StdResult<Response> {
        log(format!("if_a::burn_from2({who},{amount})"));
        Ok(Response::new())
    }
    fn ping(&self, ctx: ExecCtx) -> StdResult<Response> {
        log("if_a::ping".into());
        Ok(Response::new())
    }
    fn balance_of(&self, ctx: QueryCtx, who: String) -> StdResult<Out> {
        log(format!("if_a::balance_of({who})"));
        Ok(Out { who })
    }
    fn mint(&self, ctx: SudoCtx, amount: u64) -> StdResult<Response> {
        log(format!("if_a::mint({amount})"));
        Ok(Response::new())
    }
}

// if_b::mint would collide with if_a::mint on the sudo wrapper, so if_b is *not* attached to
// the contract's sudo surface: it is only used through its own message types.
impl<T: sylvia::types::CustomMsg + 'static> if_b::IfB for Ctr<T> {
    type Error = StdError;
    fn set_v2_admin(&self, ctx: ExecCtx, admin: Option<String>, rec: Rec) -> StdResult<Response> {
        log(format!("if_b::set_v2_admin({admin:?},{rec:?})"));
        Ok(Response::new())
    }
    fn admin(&self, ctx: QueryCtx) -> StdResult<Out> {
        log("if_b::admin".into());
        Ok(Out { who: "admin".into() })
    }
    fn mint(&self, ctx: SudoCtx, amount: u64) -> StdResult<Response> {
        log(format!("if_b::mint({amount})"));
        Ok(Response::new())
    }
}

#[entry_points(generics<Rec>)]
#[contract]
#[sv::messages(if_a)]
#[sv::features(replies)]
impl<T> Ctr<T>
where
    T: sylvia::types::CustomMsg + 'static,
{
    pub const fn new() -> Self {
        Self { _p: std::marker::PhantomData }
    }
    #[sv::msg(instantiate)]
    fn instantiate(&self, ctx: InstantiateCtx, owner: String, init: T) -> StdResult<Response> {
        log("ctr::instantiate".into());
        Ok(Response::new())
    }
    #[sv::msg(exec)]
    fn add_member2(&self, ctx: ExecCtx, addr: String, weight: u64, extra: Vec<T>) -> StdResult<Response> {
        log(format!("ctr::add_member2({addr},{weight},{})", extra.len()));
        Ok(Response::new())
    }
    #[sv::msg(exec)]
    fn x(&self, ctx: ExecCtx) -> StdResult<Response> {
        log("ctr::x".into());
        Ok(Response::new())
    }
    #[sv::msg(query)]
    fn list_all_10(&self, ctx: QueryCtx, start: Option<String>, limit: Option<u32>) -> StdResult<Out> {
        log(format!("ctr::list_all_10({start:?},{limit:?})"));
        Ok(Out { who: "x".into() })
    }
    #[sv::msg(sudo)]
    fn freeze(&self, ctx: SudoCtx, flag: bool) -> StdResult<Response> {
        log(format!("ctr::freeze({flag})"));
        Ok(Response::new())
    }
    // names and argument lists shared with handlers of *other* kinds (C04)
    #[sv::msg(query)]
    fn ping(&self, ctx: QueryCtx) -> StdResult<Out> {
        log("ctr::query::ping".into());
        Ok(Out { who: "pong".into() })
    }
    #[sv::msg(sudo)]
    fn burn_from2(&self, ctx: SudoCtx, who: String, amount: u64) -> StdResult<Response> {
        log(format!("ctr::sudo::burn_from2({who},{amount})"));
        Ok(Response::new())
    }
    #[sv::msg(migrate)]
    fn migrate(&self, ctx: sylvia::ctx::MigrateCtx, owner: String, init: T) -> StdResult<Response> {
        log("ctr::migrate".into());
        Ok(Response::new())
    }
    // one handler name per data mode
    #[sv::msg(reply, handlers=[d_raw], reply_on=success)]
    fn d_raw_ok(&self, ctx: ReplyCtx, #[sv::data(raw)] data: Binary, #[sv::payload(raw)] payload: Binary) -> StdResult<Response> {
        log(format!("d_raw:{}", data.to_base64()));
        Ok(Response::new())
    }
    #[sv::msg(reply, handlers=[d_raw_opt], reply_on=success)]
    fn d_raw_opt_ok(&self, ctx: ReplyCtx, #[sv::data(raw, opt)] data: Option<Binary>, #[sv::payload(raw)] payload: Binary) -> StdResult<Response> {
        log(format!("d_raw_opt:{:?}", data.map(|d| d.to_base64())));
        Ok(Response::new())
    }
    #[sv::msg(reply, handlers=[d_typed], reply_on=success)]
    fn d_typed_ok(&self, ctx: ReplyCtx, #[sv::data] data: Rec, #[sv::payload(raw)] payload: Binary) -> StdResult<Response> {
        log(format!("d_typed:{}", serde_json::to_string(&data).unwrap()));
        Ok(Response::new())
    }
    #[sv::msg(reply, handlers=[d_opt], reply_on=success)]
    fn d_opt_ok(&self, ctx: ReplyCtx, #[sv::data(opt)] data: Option<Rec>, #[sv::payload(raw)] payload: Binary) -> StdResult<Response> {
        log(format!("d_opt:{}", serde_json::to_string(&data).unwrap()));
        Ok(Response::new())
    }
    #[sv::msg(reply, handlers=[d_inst], reply_on=success)]
    fn d_inst_ok(&self, ctx: ReplyCtx, #[sv::data(instantiate)] data: MsgInstantiateContractResponse, #[sv::payload(raw)] payload: Binary) -> StdResult<Response> {
        log(format!("d_inst:{}:{:?}", data.contract_address, data.data.map(|d| d.to_base64())));
        Ok(Response::new())
    }
    #[sv::msg(reply, handlers=[d_inst_opt], reply_on=success)]
    fn d_inst_opt_ok(&self, ctx: ReplyCtx, #[sv::data(instantiate, opt)] data: Option<MsgInstantiateContractResponse>, #[sv::payload(raw)] payload: Binary) -> StdResult<Response> {
        log(format!("d_inst_opt:{:?}", data.map(|d| (d.contract_address, d.data.map(|x| x.to_base64())))));
        Ok(Response::new())
    }
}

pub type CtrC = Ctr<Rec>;

/// Kind of the handler that wrote a log line (fixture-specific table; C04 oracle).
pub fn kind_of_log(line: &str) -> &'static str {
    let head = line.split('(').next().unwrap_or(line);
    match head {
        "ctr::instantiate" => "instantiate",
        "ctr::migrate" => "migrate",
        "ctr::add_member2" | "ctr::x" | "if_a::burn_from2" | "if_a::ping" | "if_b::set_v2_admin" => "exec",
        "ctr::list_all_10" | "ctr::query::ping" | "if_a::balance_of" | "if_b::admin" => "query",
        "ctr::freeze" | "ctr::sudo::burn_from2" | "if_a::mint" | "if_b::mint" => "sudo",
        h if h.starts_with("d_") => "reply",
        _ => "unknown",
    }
}
