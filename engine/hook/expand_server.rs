// Included into sylvia-derive's test binary by the `verif-hook` feature
// (`mod verif_hook { include!(env!("SYLVIA_VERIF_HARNESS")); }`).
//
// Line protocol on stdin/stdout.  Request:  `<macro>\t<attr tokens>\t<item tokens>` with
// `\\`, `\n`, `\t` escaped.  Reply (one line, prefixed `@@`):
//   `@@C <expanded tokens>`   no error diagnostic was emitted
//   `@@D`                     proc_macro_error recorded >= 1 error diagnostic (abort or emit_error)
//   `@@P <panic message>`     any other panic inside the macro implementation
// The server is deliberately dumb: all analysis happens in the driver.

use std::io::{BufRead, Write};
use std::panic::{catch_unwind, AssertUnwindSafe};
use std::str::FromStr;

fn unesc(s: &str) -> String {
    let mut out = String::with_capacity(s.len());
    let mut it = s.chars();
    while let Some(c) = it.next() {
        if c == '\\' {
            match it.next() {
                Some('n') => out.push('\n'),
                Some('t') => out.push('\t'),
                Some('r') => out.push('\r'),
                Some('\\') => out.push('\\'),
                Some(o) => {
                    out.push('\\');
                    out.push(o)
                }
                None => out.push('\\'),
            }
        } else {
            out.push(c)
        }
    }
    out
}

fn esc(s: &str) -> String {
    s.replace('\\', "\\\\").replace('\n', "\\n").replace('\t', "\\t").replace('\r', "\\r")
}

fn panic_text(p: &(dyn std::any::Any + Send)) -> String {
    if let Some(s) = p.downcast_ref::<&str>() {
        s.to_string()
    } else if let Some(s) = p.downcast_ref::<String>() {
        s.clone()
    } else {
        "<non-string panic payload>".to_string()
    }
}

fn expand_one(which: &str, attr: &str, item: &str) -> String {
    let attr_ts = match proc_macro2::TokenStream::from_str(attr) {
        Ok(t) => t,
        Err(e) => return format!("@@E attr does not lex: {}", esc(&e.to_string())),
    };
    let item_ts = match proc_macro2::TokenStream::from_str(item) {
        Ok(t) => t,
        Err(e) => return format!("@@E item does not lex: {}", esc(&e.to_string())),
    };
    let which = which.to_string();
    let cell: std::rc::Rc<std::cell::RefCell<Option<proc_macro2::TokenStream>>> = Default::default();
    let cell2 = cell.clone();
    let res = catch_unwind(AssertUnwindSafe(move || {
        proc_macro_error::entry_point(
            AssertUnwindSafe(move || {
                let out = match which.as_str() {
                    "contract" => crate::contract_impl(attr_ts, item_ts),
                    "interface" => crate::interface_impl(attr_ts, item_ts),
                    "entry_points" => crate::entry_points_impl(attr_ts, item_ts),
                    other => panic!("unknown macro {other}"),
                };
                *cell2.borrow_mut() = Some(out);
                // needs no compiler bridge:
                proc_macro::TokenStream::new()
            }),
            false,
        );
    }));
    match res {
        Ok(()) => match cell.borrow_mut().take() {
            Some(ts) => format!("@@C {}", esc(&ts.to_string())),
            None => "@@P closure finished without result".to_string(),
        },
        Err(p) => {
            let msg = panic_text(&*p);
            if msg.contains("procedural macro API is used outside of a procedural macro") {
                "@@D".to_string()
            } else {
                format!("@@P {}", esc(&msg))
            }
        }
    }
}

#[test]
fn verif_expand_server() {
    std::panic::set_hook(Box::new(|_| {}));
    let handle = std::thread::Builder::new()
        .stack_size(256 << 20)
        .spawn(|| {
            let stdin = std::io::stdin();
            let stdout = std::io::stdout();
            {
                let mut o = stdout.lock();
                writeln!(o, "\n@@READY").unwrap();
                o.flush().unwrap();
            }
            for line in stdin.lock().lines() {
                let line = match line {
                    Ok(l) => l,
                    Err(_) => break,
                };
                if line == "QUIT" {
                    break;
                }
                let mut parts = line.splitn(3, '\t');
                let which = parts.next().unwrap_or("");
                let attr = unesc(parts.next().unwrap_or(""));
                let item = unesc(parts.next().unwrap_or(""));
                let reply = expand_one(which, &attr, &item);
                let mut o = stdout.lock();
                writeln!(o, "{}", reply).unwrap();
                o.flush().unwrap();
            }
        })
        .unwrap();
    handle.join().unwrap();
}
