fn main(){}
