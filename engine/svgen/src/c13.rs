//! C13 -- the annotated source is passed through intact and expansion is deterministic.

use crate::check::{Ctx, Outcome};
use crate::e1::*;
use crate::expander::{Expander, Expansion};
use crate::proj;
use crate::surface::*;
use proptest::strategy::Strategy;
use serde_json::{json, Value};

impl E1Case for SurfaceCase {
    fn to_json(&self) -> Value {
        serde_json::to_value(self).unwrap()
    }
    fn from_json(v: &Value) -> Option<Self> {
        serde_json::from_value(v.clone()).ok()
    }
}

fn param_attr_kind(case: &SurfaceCase) -> &'static str {
    if case.tags.iter().any(|t| t == "helper-param-attribute") {
        "helper-param-attribute"
    } else {
        "other"
    }
}

/// first item of the expansion vs the independently rendered expectation
pub fn check_surface(ex: &mut Expander, second: &mut Expander, case: &SurfaceCase, st: &mut Stats) -> Result<(), Bad> {
    for t in &case.tags {
        st.class(if t.starts_with("real:") { "real-source-item" } else { t });
    }
    st.class(&format!("macro:{}", case.which));
    if case.tags.iter().any(|t| t == "helper-method" || t == "foreign-attribute" || t == "nested-item" || t.starts_with("real:")) {
        st.nontrivial(&case.written);
    }
    st.sample(|| json!({"macro": case.which, "attr": case.attr, "item": case.written.chars().take(700).collect::<String>()}));
    let e1 = ex.expand(&case.which, &case.attr, &case.written).map_err(Bad::Harness)?;
    let text = match &e1 {
        Expansion::Clean(s) if e1.accepted() => s.clone(),
        Expansion::BadRequest(m) => return Err(Bad::Harness(format!("HARNESS: generated item does not lex: {m}"))),
        other => {
            return Err(viol(
                format!("rejected:{}", case.which),
                "a well-formed annotated item is rejected by the macro",
                json!({"outcome": short(other), "item": case.written}),
            ))
        }
    };
    let file = proj::parse(&text).map_err(|e| viol("unparsable-output", "macro output does not parse", json!({"error": e})))?;
    let Some(first) = file.items.first() else {
        return Err(viol("empty-output", "macro output has no items", json!({"item": case.written})));
    };
    // trailing commas carry no meaning and are not part of the comparison
    let squash = |s: String| s.replace(' ', "").replace(",)", ")").replace(",>", ">").replace(",}", "}").replace(",]", "]");
    let got = squash(proj::ts(first));
    let want = squash(proj::norm_item(&case.expected).map_err(|e| Bad::Harness(format!("HARNESS: expectation does not parse: {e}")))?);
    if got != want {
        // locate the first difference for the report
        let (ga, wa): (Vec<char>, Vec<char>) = (got.chars().collect(), want.chars().collect());
        let pos = ga.iter().zip(wa.iter()).position(|(a, b)| a != b).unwrap_or(ga.len().min(wa.len()));
        let ctx = |v: &Vec<char>| v[pos.saturating_sub(60)..(pos + 60).min(v.len())].iter().collect::<String>();
        let lost = ga.len() < wa.len();
        return Err(viol(
            format!("pass-through:{}:{}:{}", case.which, if lost { "lost-tokens" } else { "changed-tokens" }, param_attr_kind(case)),
            "the re-emitted item differs from the input with only framework attributes and handler-parameter attributes removed",
            json!({"expected_around": ctx(&wa), "got_around": ctx(&ga), "item": case.written}),
        ));
    }
    // determinism: same process again, and a second process
    let e2 = ex.expand(&case.which, &case.attr, &case.written).map_err(Bad::Harness)?;
    let e3 = second.expand(&case.which, &case.attr, &case.written).map_err(Bad::Harness)?;
    if e2 != e1 || e3 != e1 {
        return Err(viol(
            format!("nondeterministic:{}", if e2 != e1 { "same-process" } else { "second-process" }),
            "expanding the same input twice gives different output",
            json!({"item": case.written}),
        ));
    }
    Ok(())
}

pub fn run(ctx: &Ctx, exe: &std::path::PathBuf, out: &mut Outcome) {
    let cases = if ctx.quick() { 2000 } else { 40000 };
    // generated items
    for (salt, which) in [("surface-contract", 0u8), ("surface-interface", 1), ("surface-entry-points", 2)] {
        let n = match which {
            0 => cases / 2,
            1 => cases / 4,
            _ => cases / 4,
        };
        let seconds: std::sync::Mutex<Vec<Expander>> = std::sync::Mutex::new(vec![]);
        let res = run_generated(
            ctx,
            exe,
            salt,
            move || {
                tape_strategy(300)
                    .prop_map(move |t| match which {
                        0 => gen_contract_surface(t),
                        1 => gen_interface_surface(t),
                        _ => gen_entry_points_surface(t),
                    })
                    .boxed()
            },
            n,
            8,
            |ex, case: &SurfaceCase, st| {
                // a per-thread second server process
                let mut second = seconds.lock().unwrap().pop().map(Ok).unwrap_or_else(|| Expander::spawn(exe)).map_err(Bad::Harness)?;
                let r = check_surface(ex, &mut second, case, st);
                seconds.lock().unwrap().push(second);
                r
            },
        );
        to_outcome(ctx, salt, res, out);
    }
    // every annotated item of the real sources
    if ctx.replay.is_none() {
        let real = real_sources();
        let mut st = Stats::default();
        let mut failures = vec![];
        let mut harness = vec![];
        match (Expander::spawn(exe), Expander::spawn(exe)) {
            (Ok(mut ex), Ok(mut second)) => {
                for case in &real {
                    st.evaluations += 1;
                    match check_surface(&mut ex, &mut second, case, &mut st) {
                        Ok(()) => {}
                        Err(Bad::Violation { key, what, detail }) => {
                            if !failures.iter().any(|f: &E1Failure| f.key == key) {
                                failures.push(E1Failure { key, what, case: case.to_json(), detail })
                            }
                        }
                        Err(Bad::Harness(h)) => harness.push(h),
                    }
                }
                st.expansions = ex.requests + second.requests;
            }
            _ => harness.push("cannot spawn expansion servers".into()),
        }
        out.extra.insert("real_source_items".into(), json!(real.len()));
        to_outcome(ctx, "real-sources", E1Result { stats: st, failures, harness }, out);
    } else {
        let res = run_generated(ctx, exe, "real-sources", || proptest::strategy::Just(gen_contract_surface(vec![])).boxed(), 0, 1, |ex, case: &SurfaceCase, st| {
            let mut second = Expander::spawn(exe).map_err(Bad::Harness)?;
            check_surface(ex, &mut second, case, st)
        });
        to_outcome(ctx, "real-sources", res, out);
    }
}
