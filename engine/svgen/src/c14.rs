//! C14(a) -- behaviour does not depend on the order of declarations (metamorphic, E1).

use crate::check::{Ctx, Outcome};
use crate::e1::*;
use crate::expander::Expander;
use crate::gen::{gen_msg_program, gen_reply_program, GenOpts};
use crate::proj;
use serde_json::json;
use svmodel::tape::Tape;
use svmodel::*;

fn permute<T>(v: &mut Vec<T>, t: &mut Tape) -> bool {
    let before: Vec<usize> = (0..v.len()).collect();
    let mut idx = before.clone();
    for i in (1..idx.len()).rev() {
        let j = t.pick(i + 1);
        idx.swap(i, j);
    }
    let moved = idx != before;
    let mut taken: Vec<Option<T>> = std::mem::take(v).into_iter().map(Some).collect();
    for i in idx {
        v.push(taken[i].take().unwrap());
    }
    moved
}

pub fn twin(p: &Program, t: &mut Tape) -> (Program, Vec<&'static str>) {
    let mut q = p.clone();
    let mut moved = vec![];
    if permute(&mut q.contract.methods, t) {
        moved.push("contract-methods");
    }
    if permute(&mut q.interfaces, t) {
        moved.push("interface-declarations");
    }
    for i in q.interfaces.iter_mut() {
        if permute(&mut i.methods, t) {
            moved.push("interface-methods");
        }
        permute(&mut i.msg_attrs, t);
    }
    if permute(&mut q.contract.msg_attrs, t) {
        moved.push("msg-attr-declarations");
    }
    if permute(&mut q.contract.overrides, t) {
        moved.push("override-declarations");
    }
    // the attributes of one method: `sv::attr` above / below `sv::msg`
    if t.chance(50) {
        q.contract.flip_attr_order = !q.contract.flip_attr_order;
        moved.push("method-attribute-order");
    }
    (q, moved)
}

fn split_items(canon_file: &syn::File) -> Vec<(String, String)> {
    let mut out = vec![];
    for it in &canon_file.items {
        match it {
            syn::Item::Mod(m) => {
                for inner in proj::mod_items(m) {
                    out.push((format!("mod {}::{}", m.ident, item_name(inner)), proj::ts(inner)));
                }
            }
            other => out.push((item_name(other), proj::ts(other))),
        }
    }
    out
}

fn item_name(i: &syn::Item) -> String {
    match i {
        syn::Item::Enum(e) => format!("enum {}", e.ident),
        syn::Item::Struct(e) => format!("struct {}", e.ident),
        syn::Item::Fn(e) => format!("fn {}", e.sig.ident),
        syn::Item::Trait(e) => format!("trait {}", e.ident),
        syn::Item::Const(e) => format!("const {}", e.ident),
        syn::Item::Type(e) => format!("type {}", e.ident),
        syn::Item::Impl(e) => format!("impl {} for {}", e.trait_.as_ref().map(|t| proj::ts(&t.1)).unwrap_or_default(), proj::ts(&e.self_ty)),
        syn::Item::Mod(e) => format!("mod {}", e.ident),
        _ => "item".into(),
    }
}

fn compare(what: &str, a: &str, b: &str, p: &Program, q: &Program) -> Result<(), Bad> {
    let fa = proj::parse(a).map_err(unparsable)?;
    let fb = proj::parse(b).map_err(unparsable)?;
    let ca = proj::canonical(&fa);
    let cb = proj::canonical(&fb);
    if ca == cb {
        return Ok(());
    }
    // find the first differing item
    let ia = split_items(&syn::parse_file(&ca).map_err(|e| Bad::Harness(e.to_string()))?);
    let ib = split_items(&syn::parse_file(&cb).map_err(|e| Bad::Harness(e.to_string()))?);
    let mut name = "<item set>".to_string();
    let mut da = String::new();
    let mut db = String::new();
    for (n, ta) in &ia {
        match ib.iter().find(|(m, _)| m == n) {
            Some((_, tb)) if tb == ta => {}
            Some((_, tb)) => {
                name = n.clone();
                let (xa, xb): (Vec<char>, Vec<char>) = (ta.chars().collect(), tb.chars().collect());
                let pos = xa.iter().zip(xb.iter()).position(|(x, y)| x != y).unwrap_or(xa.len().min(xb.len()));
                da = xa[pos.saturating_sub(100)..(pos + 160).min(xa.len())].iter().collect();
                db = xb[pos.saturating_sub(100)..(pos + 160).min(xb.len())].iter().collect();
                break;
            }
            None => {
                name = format!("{n} (missing in twin)");
                break;
            }
        }
    }
    Err(viol(
        format!("order-dependent:{what}:{name}"),
        "the expansion of a program and of its reordered twin differ beyond declaration order",
        json!({"item": name, "original_around": da, "twin_around": db, "program": p, "twin": q}),
    ))
}

pub fn c14a_case(ex: &mut Expander, tape: &Vec<u32>, st: &mut Stats) -> Result<(), Bad> {
    let mut t = Tape::new(tape.iter().rev().cloned().collect());
    let reply = t.chance(50);
    // two legacy reply handlers are probed separately (recorded finding: first declared wins)
    let opts = GenOpts { max_legacy_reply: 1, ..GenOpts::default() };
    let mut p = if reply { gen_reply_program("p_ord", tape.clone(), &opts, true) } else { gen_msg_program("p_ord", tape.clone(), &opts) };
    // random overrides (token level only)
    for k in Kind::ALL {
        if t.chance(15) && !p.contract.overrides.contains(&k) && (k != Kind::Migrate || p.has_kind(0, Kind::Migrate)) && (k != Kind::Reply || p.has_kind(0, Kind::Reply)) {
            p.contract.overrides.push(k);
        }
    }
    // several forwarded attributes per message kind, interleaved with those of other kinds
    // (markers 2000.. are unique, so each must survive in both declaration orders)
    if t.chance(50) {
        let mut next = 2000u32;
        let kinds = [Kind::Instantiate, Kind::Exec, Kind::Query, Kind::Sudo];
        for _ in 0..(2 + t.pick(4)) {
            next += 1;
            let k = kinds[t.pick(kinds.len())];
            p.contract.msg_attrs.push((k, svmodel::MsgAttr::Marker(next)));
        }
        for i in p.interfaces.iter_mut() {
            for _ in 0..t.pick(4) {
                next += 1;
                let k = Kind::ENUMS[t.pick(3)];
                i.msg_attrs.push((k, svmodel::MsgAttr::Marker(next)));
            }
        }
        st.class("dense-msg-attrs");
    }
    // two methods of one name that mark the payload differently (typed `Binary` / raw) are probed
    // separately (recorded finding: the first declared marker decides the encoding)
    unify_payload_markers(&mut p);
    let (q, moved) = twin(&p, &mut t);
    st.class(if reply { "family:reply" } else { "family:msg" });
    for m in &moved {
        st.class(&format!("moved:{m}"));
    }
    let table = p.reply_table();
    let two_method_row = table.iter().any(|r| r.ok.is_some() && r.err.is_some() && r.ok != r.err);
    if !moved.is_empty() && (two_method_row || p.interfaces.len() >= 2) {
        st.nontrivial(&(serde_json::to_string(&p).unwrap(), serde_json::to_string(&q).unwrap()));
    }
    if two_method_row && moved.contains(&"contract-methods") {
        st.class("reply-methods-of-one-name-reordered");
    }
    st.sample(|| json!({"moved": moved, "methods": p.contract.methods.iter().map(|m| m.name.clone()).collect::<Vec<_>>(), "twin_methods": q.contract.methods.iter().map(|m| m.name.clone()).collect::<Vec<_>>()}));
    let ea = expand_program(ex, &p)?;
    let eb = expand_program(ex, &q)?;
    // verdicts
    let va = (ea.contract.accepted(), ea.entry.as_ref().map(|e| e.accepted()));
    let vb = (eb.contract.accepted(), eb.entry.as_ref().map(|e| e.accepted()));
    if va != vb {
        return Err(viol("verdict", "a program and its reordered twin are not both accepted / both rejected", json!({"original": format!("{va:?}"), "twin": format!("{vb:?}"), "program": p, "twin_program": q})));
    }
    let ta = clean_text(&ea.contract, "contract", &p)?;
    let tb = clean_text(&eb.contract, "contract", &q)?;
    compare("contract", ta, tb, &p, &q)?;
    if let (Some(a), Some(b)) = (&ea.entry, &eb.entry) {
        compare("entry_points", clean_text(a, "entry_points", &p)?, clean_text(b, "entry_points", &q)?, &p, &q)?;
    }
    for (n, i) in p.interfaces.iter().enumerate() {
        let m = q.interfaces.iter().position(|j| j.module == i.module).unwrap();
        compare("interface", clean_text(&ea.ifaces[n], "interface", &p)?, clean_text(&eb.ifaces[m], "interface", &q)?, &p, &q)?;
    }
    Ok(())
}

/// Legacy contracts (no `sv::features(replies)`) with two `#[sv::msg(reply)]` methods, in both orders.
/// Give every reply handler name one payload declaration (the typed one of a mixed pair).
fn unify_payload_markers(p: &mut Program) {
    use svmodel::Payload;
    let table = p.reply_table();
    for row in table {
        let names: Vec<String> = [row.ok.clone(), row.err.clone()].into_iter().flatten().collect();
        let typed = p.contract.methods.iter().filter(|m| names.contains(&m.name)).find_map(|m| match &m.reply.as_ref()?.payload {
            Payload::Typed(a) => Some(Payload::Typed(a.clone())),
            Payload::Raw => None,
        });
        let has_raw = p.contract.methods.iter().filter(|m| names.contains(&m.name)).any(|m| matches!(m.reply.as_ref().map(|r| &r.payload), Some(Payload::Raw)));
        if let (Some(typed), true) = (typed, has_raw) {
            for m in p.contract.methods.iter_mut().filter(|m| names.contains(&m.name)) {
                if let Some(r) = m.reply.as_mut() {
                    r.payload = typed.clone();
                }
            }
        }
    }
}

/// Probe: a success and an error method of one name, one with a typed `Binary` payload, the
/// other marking it `#[sv::payload(raw)]`, in both declaration orders.
fn mixed_payload_markers(ex: &mut Expander, st: &mut Stats) -> Result<(), Bad> {
    use svmodel::{Arg, DataMode, Method, Payload, ReplyOn, ReplySpec, RespTy, Role};
    // base program from a fixed, non-degenerate tape
    let base_tape: Vec<u32> = crate::draw_tapes(0x14d, 1, 600).remove(0);
    let mut p = gen_reply_program("p_mix", base_tape, &GenOpts::default(), false);
    let mk = |name: &str, on: ReplyOn, payload: Payload| Method {
        name: name.into(),
        role: Role::Handler(Kind::Reply),
        args: vec![],
        err: p.contract.error,
        resp: RespTy::EchoA,
        resp_explicit: false,
        variant_attrs: vec![],
        reply: Some(ReplySpec { handlers: vec!["vp_mixed".into()], on, data: DataMode::Absent, data_ty: Ty::U32, payload }),
    };
    let typed = Payload::Typed(vec![Arg { name: "blob".into(), ty: Ty::Binary, attrs: vec![] }]);
    let a = mk("vp_mixed_ok", ReplyOn::Success, typed);
    let b = mk("vp_mixed_err", ReplyOn::Error, Payload::Raw);
    p.contract.methods.push(a);
    p.contract.methods.push(b);
    let mut q = p.clone();
    let n = q.contract.methods.len();
    q.contract.methods.swap(n - 1, n - 2);
    st.class("mixed-payload-markers");
    st.nontrivial(&"mixed-payload-markers");
    let ea = expand_program(ex, &p)?;
    let eb = expand_program(ex, &q)?;
    if ea.contract.accepted() != eb.contract.accepted() {
        return Err(viol("mixed-payload-markers:verdict", "the two declaration orders are not both accepted / both rejected", json!({"program": p})));
    }
    if !ea.contract.accepted() {
        return Ok(());
    }
    let (ta, tb) = (clean_text(&ea.contract, "contract", &p)?, clean_text(&eb.contract, "contract", &q)?);
    match compare("contract", ta, tb, &p, &q) {
        Ok(()) => Ok(()),
        Err(Bad::Violation { what, detail, .. }) => Err(Bad::Violation { key: "mixed-payload-markers:first-declared-wins".into(), what, detail }),
        Err(e) => Err(e),
    }
}

fn legacy_two_replies(ex: &mut Expander, st: &mut Stats) -> Result<(), Bad> {
    let mut p = gen_msg_program("p_leg", vec![0; 8], &GenOpts { legacy_reply: false, overrides: false, ..GenOpts::default() });
    for name in ["first_reply", "second_reply"] {
        p.contract.methods.push(crate::e1props::reply_method(name, false, p.contract.error));
    }
    let mut q = p.clone();
    let n = q.contract.methods.len();
    q.contract.methods.swap(n - 1, n - 2);
    st.class("legacy-two-reply-handlers");
    st.nontrivial(&"legacy-two-reply-handlers");
    let ea = expand_program(ex, &p)?;
    let eb = expand_program(ex, &q)?;
    let (ta, tb) = (clean_text(&ea.contract, "contract", &p)?, clean_text(&eb.contract, "contract", &q)?);
    let (xa, xb) = (clean_text(ea.entry.as_ref().unwrap(), "entry_points", &p)?, clean_text(eb.entry.as_ref().unwrap(), "entry_points", &q)?);
    match compare("contract", ta, tb, &p, &q).and(compare("entry_points", xa, xb, &p, &q)) {
        Ok(()) => Ok(()),
        Err(Bad::Violation { what, detail, .. }) => Err(Bad::Violation { key: "legacy-reply:first-declared-wins".into(), what, detail }),
        Err(e) => Err(e),
    }
}

pub fn run(ctx: &Ctx, exe: &std::path::PathBuf, out: &mut Outcome) {
    let cases = if ctx.quick() { 1500 } else { 30000 };
    let res = run_generated(ctx, exe, "twins", || tape_strategy(600), cases, 8, c14a_case);
    to_outcome(ctx, "twins", res, out);
    // fixed probe
    let res = run_generated(ctx, exe, "legacy-two-replies", || proptest::strategy::Strategy::boxed(proptest::strategy::Just(vec![0u32])), 1, 1, |ex, _t: &Vec<u32>, st| legacy_two_replies(ex, st));
    to_outcome(ctx, "legacy-two-replies", res, out);
    let res = run_generated(ctx, exe, "mixed-payload-markers", || proptest::strategy::Strategy::boxed(proptest::strategy::Just(vec![0u32])), 1, 1, |ex, _t: &Vec<u32>, st| mixed_payload_markers(ex, st));
    to_outcome(ctx, "mixed-payload-markers", res, out);
}

/// The macro accepted the program, so its output has to be Rust: output that does not parse is
/// a violation of its own (the harness' parser is syn 2 with the `full` feature).
fn unparsable(e: String) -> Bad {
    viol("unparsable-output", "the expansion of an accepted program does not parse as Rust", json!({"error": e}))
}
