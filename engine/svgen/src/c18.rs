//! C18(a) -- programs violating the documented constraints are rejected with a diagnostic
//! (E1: every edited program must be Dirty, a panic is a violation; exhaustive small
//! reply tables).

use crate::check::{Ctx, Outcome};
use crate::e1::*;
use crate::expander::{Expander, Expansion};
use crate::gen::{gen_msg_program, GenOpts};
use crate::render;
use serde_json::{json, Value};
use svmodel::tape::Tape;
use svmodel::*;

#[derive(Clone, Debug, serde::Serialize, serde::Deserialize)]
pub struct Invalid {
    pub rule: String,
    pub which: String,
    pub attr: String,
    pub item: String,
    /// the same item without the edit (must be accepted)
    pub valid_item: String,
    pub valid_attr: String,
}

impl E1Case for Invalid {
    fn to_json(&self) -> Value {
        serde_json::to_value(self).unwrap()
    }
    fn from_json(v: &Value) -> Option<Self> {
        serde_json::from_value(v.clone()).ok()
    }
}

const REPLY_BASE: &str = r#"#[sv::features(replies)]
impl Ctr {
    pub const fn new() -> Self { Self }
    #[sv::msg(instantiate)]
    fn inst(&self, ctx: InstantiateCtx) -> Result<Response, StdError> { todo!() }
    #[sv::msg(reply, handlers=[on_a], reply_on=success)]
    fn on_a_ok(&self, ctx: ReplyCtx, #[sv::data(opt)] data: Option<u32>, p1: u32, p2: String) -> Result<Response, StdError> { todo!() }
    #[sv::msg(reply, handlers=[on_a], reply_on=error)]
    fn on_a_err(&self, ctx: ReplyCtx, error: String, p1: u32, p2: String) -> Result<Response, StdError> { todo!() }
    #[sv::msg(reply, handlers=[on_b])]
    fn on_b_any(&self, ctx: ReplyCtx, result: SubMsgResult, #[sv::payload(raw)] payload: Binary) -> Result<Response, StdError> { todo!() }
}
"#;

pub const RULES: &[&str] = &[
    "no-instantiate", "two-instantiate", "two-migrate", "missing-new", "new-with-params",
    "interface-instantiate", "interface-migrate", "interface-generics", "interface-no-error",
    "interface-instantiate-after-helper", "interface-migrate-after-helper",
    "reply-dup-success", "reply-dup-error", "reply-always-plus-success", "reply-always-plus-error", "reply-dup-always",
    "reply-payload-arity", "reply-payload-type",
    "data-not-first", "data-on-error", "data-on-always", "data-raw-instantiate",
    "param-after-raw-payload", "param-between-data-and-raw-payload", "missing-payload", "missing-payload-data-only",
    "payload-without-args", "payload-unknown-arg",
    "unknown-msg-arg", "unknown-msg-kind", "unknown-reply-on", "unknown-data-arg", "unknown-feature", "unknown-custom-arg",
    "unknown-messages-custom-flag", "unknown-msg-attr-kind", "unknown-override-kind", "messages-trailing-tokens",
    "duplicated-sv-msg", "sv-attr-on-self", "sv-attr-on-ctx", "sv-attr-on-instantiate", "sv-attr-on-migrate",
    "entry-points-too-few-types", "entry-points-too-many-types", "entry-points-no-instantiate",
    "pattern-argument", "duplicated-custom", "duplicated-error",
];

fn first_method_line<'a>(item: &'a str, attr: &str) -> Option<&'a str> {
    item.lines().find(|l| l.trim_start().starts_with(attr))
}

/// Build the invalid program for `rule` from a random valid base program.
pub fn make_invalid(rule: &str, tape: Vec<u32>) -> Option<Invalid> {
    let mut t = Tape::new(tape.iter().rev().cloned().collect());
    let opts = GenOpts { allow_attrs: false, ..GenOpts::default() };
    let mut p = gen_msg_program("p_inv", tape, &opts);
    let inv = |which: &str, attr: &str, item: String, valid_attr: &str, valid_item: String| {
        Some(Invalid { rule: rule.to_string(), which: which.to_string(), attr: attr.to_string(), item, valid_item, valid_attr: valid_attr.to_string() })
    };
    let citem = render::render_contract_item(&p);
    match rule {
        "no-instantiate" => {
            let mut q = p.clone();
            q.contract.methods.retain(|m| m.kind() != Some(Kind::Instantiate));
            inv("contract", "", render::render_contract_item(&q), "", citem)
        }
        "two-instantiate" | "two-migrate" => {
            let kind = if rule == "two-instantiate" { Kind::Instantiate } else { Kind::Migrate };
            if !p.has_kind(0, kind) {
                p.contract.methods.push(Method { name: "vp_first".into(), role: Role::Handler(kind), args: vec![], err: ErrTy::Std, resp: RespTy::EchoA, resp_explicit: false, variant_attrs: vec![], reply: None });
            }
            let valid = render::render_contract_item(&p);
            let mut q = p.clone();
            let mut extra = q.contract.methods.iter().find(|m| m.kind() == Some(kind)).unwrap().clone();
            extra.name = "vp_second".into();
            let pos = t.pick(q.contract.methods.len() + 1);
            q.contract.methods.insert(pos, extra);
            inv("contract", "", render::render_contract_item(&q), "", valid)
        }
        "missing-new" => {
            let line = citem.lines().find(|l| l.contains("pub const fn new()"))?.to_string();
            inv("contract", "", citem.replacen(&line, "", 1), "", citem.clone())
        }
        "new-with-params" => inv("contract", "", citem.replacen("pub const fn new() -> Self", "pub const fn new(x: u32) -> Self", 1), "", citem.clone()),
        "interface-instantiate" | "interface-migrate" | "interface-generics" | "interface-no-error" | "interface-instantiate-after-helper" | "interface-migrate-after-helper" => {
            if p.interfaces.is_empty() {
                p.interfaces.push(Interface { module: "if_a".into(), trait_name: "IfA".into(), explicit_as: false, assoc: vec![], assoc_names: vec![], alias: None, style: CustomStyle::Plain, methods: vec![], msg_attrs: vec![] });
            }
            let i = &p.interfaces[t.pick(p.interfaces.len())];
            let valid = render::render_interface_item(&p, i);
            let item = match rule {
                "interface-instantiate" => valid.replacen("type Error: From<StdError>;", "type Error: From<StdError>;\n    #[sv::msg(instantiate)]\n    fn vp_inst(&self, ctx: InstantiateCtx) -> Result<Response, Self::Error>;", 1),
                "interface-migrate" => valid.replacen("type Error: From<StdError>;", "type Error: From<StdError>;\n    #[sv::msg(migrate)]\n    fn vp_mig(&self, ctx: MigrateCtx) -> Result<Response, Self::Error>;", 1),
                // the offending method declared after a plain (un-annotated) helper method
                "interface-instantiate-after-helper" => valid.replacen("type Error: From<StdError>;", "type Error: From<StdError>;\n    fn vp_helper(&self) -> u32 { 7 }\n    #[sv::msg(instantiate)]\n    fn vp_inst(&self, ctx: InstantiateCtx) -> Result<Response, Self::Error>;", 1),
                "interface-migrate-after-helper" => valid.replacen("type Error: From<StdError>;", "type Error: From<StdError>;\n    fn vp_helper(&self) -> u32 { 7 }\n    #[sv::msg(migrate)]\n    fn vp_mig(&self, ctx: MigrateCtx) -> Result<Response, Self::Error>;", 1),
                "interface-generics" => valid.replacen(&format!("pub trait {} {{", i.trait_name), &format!("pub trait {}<G> {{", i.trait_name), 1),
                _ => valid.replacen("type Error: From<StdError>;", "", 1),
            };
            inv("interface", "", item, "", valid)
        }
        r if r.starts_with("reply-") || r.starts_with("data-") || r.starts_with("param-") || r == "missing-payload" || r == "missing-payload-data-only" || r.starts_with("payload-") || r == "unknown-reply-on" || r == "unknown-data-arg" => {
            // the second payload parameter's type is drawn; for the type-mismatch rule the two
            // methods get a pair of different types, including pairs that differ only inside
            // generic arguments
            const PAYLOAD_TYS: &[&str] = &["String", "u64", "Vec<u32>", "Option<u64>", "(u32, String)", "Vec<Option<String>>", "Box<Coin>", "BTreeMap<String, u32>"];
            const MISMATCH: &[(&str, &str)] = &[
                ("String", "u64"),
                ("Vec<u32>", "Vec<String>"),
                ("Option<u64>", "Option<Addr>"),
                ("Vec<u32>", "Vec<Vec<u32>>"),
                ("(u32, String)", "(u32, u64)"),
                ("Option<u32>", "Vec<u32>"),
                ("BTreeMap<String, u32>", "BTreeMap<String, u64>"),
                ("Box<Coin>", "Box<Addr>"),
                ("Vec<(u8, u8)>", "Vec<(u8, u16)>"),
            ];
            let pair = MISMATCH[t.pick(MISMATCH.len())];
            let ty2 = if r == "reply-payload-type" { pair.0 } else { PAYLOAD_TYS[t.pick(PAYLOAD_TYS.len())] };
            let b = REPLY_BASE.replace("p2: String", &format!("p2: {ty2}"));
            let err_sig = format!("error: String, p1: u32, p2: {ty2}");
            let item = match r {
                "reply-dup-success" => b.replacen("handlers=[on_a], reply_on=error)]\n    fn on_a_err(&self, ctx: ReplyCtx, error: String,", "handlers=[on_a], reply_on=success)]\n    fn on_a_err(&self, ctx: ReplyCtx,", 1),
                "reply-dup-error" => b.replacen("handlers=[on_a], reply_on=success)]\n    fn on_a_ok(&self, ctx: ReplyCtx, #[sv::data(opt)] data: Option<u32>,", "handlers=[on_a], reply_on=error)]\n    fn on_a_ok(&self, ctx: ReplyCtx, error: String,", 1),
                "reply-always-plus-success" => b.replacen("handlers=[on_a], reply_on=error)]\n    fn on_a_err(&self, ctx: ReplyCtx, error: String,", "handlers=[on_a], reply_on=always)]\n    fn on_a_err(&self, ctx: ReplyCtx, result: SubMsgResult,", 1),
                "reply-always-plus-error" => b.replacen("handlers=[on_a], reply_on=success)]\n    fn on_a_ok(&self, ctx: ReplyCtx, #[sv::data(opt)] data: Option<u32>,", "handlers=[on_a], reply_on=always)]\n    fn on_a_ok(&self, ctx: ReplyCtx, result: SubMsgResult,", 1),
                "reply-dup-always" => b.replacen("}\n}\n", "}\n    #[sv::msg(reply, handlers=[on_b], reply_on=always)]\n    fn on_b_again(&self, ctx: ReplyCtx, result: SubMsgResult, #[sv::payload(raw)] payload: Binary) -> Result<Response, StdError> { todo!() }\n}\n", 1),
                "reply-payload-arity" => b.replacen(&err_sig, "error: String, p1: u32", 1),
                "reply-payload-type" => b.replacen(&err_sig, &format!("error: String, p1: u32, p2: {}", pair.1), 1),
                "data-not-first" => b.replacen("#[sv::data(opt)] data: Option<u32>, p1: u32,", "p1: u32, #[sv::data(opt)] data: Option<u32>,", 1).replacen(&err_sig, &format!("error: String, p1: u32, data: Option<u32>, p2: {ty2}"), 1),
                "data-on-error" => b.replacen("error: String, p1: u32", "#[sv::data] error: String, p1: u32", 1),
                "data-on-always" => b.replacen("result: SubMsgResult,", "#[sv::data(raw)] result: SubMsgResult,", 1),
                "data-raw-instantiate" => b.replacen("#[sv::data(opt)]", "#[sv::data(raw, instantiate)]", 1),
                "param-after-raw-payload" => b.replacen("#[sv::payload(raw)] payload: Binary", "#[sv::payload(raw)] payload: Binary, extra: u32", 1),
                "param-between-data-and-raw-payload" => b.replacen("result: SubMsgResult, #[sv::payload(raw)] payload: Binary", "result: SubMsgResult, extra: u32, #[sv::payload(raw)] payload: Binary", 1),
                "missing-payload" => b.replacen("result: SubMsgResult, #[sv::payload(raw)] payload: Binary", "result: SubMsgResult", 1),
                // a success handler whose only parameter is the data one (its error twin removed)
                "missing-payload-data-only" => {
                    let x = b.replacen(&format!("data: Option<u32>, p1: u32, p2: {ty2}"), "data: Option<u32>", 1);
                    let start = x.find("    #[sv::msg(reply, handlers=[on_a], reply_on=error)]").unwrap_or(0);
                    let end = x.find("    #[sv::msg(reply, handlers=[on_b])]").unwrap_or(start);
                    format!("{}{}", &x[..start], &x[end..])
                }
                "payload-without-args" => b.replacen("#[sv::payload(raw)]", "#[sv::payload]", 1),
                "payload-unknown-arg" => b.replacen("#[sv::payload(raw)]", "#[sv::payload(bytes)]", 1),
                "unknown-reply-on" => b.replacen("reply_on=error", "reply_on=failure", 1),
                "unknown-data-arg" => b.replacen("#[sv::data(opt)]", "#[sv::data(optional)]", 1),
                _ => return None,
            };
            if item == b {
                return None;
            }
            inv("contract", "", item, "", b)
        }
        "unknown-msg-arg" | "unknown-msg-kind" | "duplicated-sv-msg" | "sv-attr-on-self" | "sv-attr-on-ctx" | "pattern-argument" => {
            let line = first_method_line(&citem, "#[sv::msg(exec)]").or(first_method_line(&citem, "#[sv::msg(sudo)]")).or(first_method_line(&citem, "#[sv::msg(query)]"))?.to_string();
            let kind = if line.contains("exec") { "exec" } else if line.contains("sudo") { "sudo" } else { "query" };
            let item = match rule {
                "unknown-msg-arg" => citem.replacen(&line, &line.replace(&format!("sv::msg({kind}"), &format!("sv::msg({kind}, foo=bar")), 1),
                "unknown-msg-kind" => citem.replacen(&line, &line.replace(&format!("sv::msg({kind}"), "sv::msg(execute"), 1),
                "duplicated-sv-msg" => citem.replacen(&line, &format!("{line}\n    #[sv::msg({kind})]"), 1),
                "sv-attr-on-self" => {
                    let pos = citem.find(&line)?;
                    let rest = &citem[pos..];
                    let edited = rest.replacen("(&self,", "(#[sv::payload(raw)] &self,", 1);
                    format!("{}{}", &citem[..pos], edited)
                }
                "sv-attr-on-ctx" => {
                    let pos = citem.find(&line)?;
                    let rest = &citem[pos..];
                    let edited = rest.replacen("(&self, ctx:", "(&self, #[sv::data] ctx:", 1);
                    format!("{}{}", &citem[..pos], edited)
                }
                _ => {
                    let pos = citem.find(&line)?;
                    let rest = &citem[pos..];
                    let edited = rest.replacen(") ->", ", (pa, pb): (u32, u32)) ->", 1);
                    format!("{}{}", &citem[..pos], edited)
                }
            };
            inv("contract", "", item, "", citem.clone())
        }
        "unknown-feature" => inv("contract", "", format!("#[sv::features(reply)]\n{citem}"), "", citem.clone()),
        "unknown-custom-arg" => inv("contract", "", format!("#[sv::custom(message=MyMsg)]\n{}", citem.lines().filter(|l| !l.starts_with("#[sv::custom")).collect::<Vec<_>>().join("\n")), "", citem.clone()),
        "duplicated-custom" => inv("contract", "", format!("#[sv::custom(msg=MyMsg)]\n#[sv::custom(msg=MyMsg)]\n{}", citem.lines().filter(|l| !l.starts_with("#[sv::custom")).collect::<Vec<_>>().join("\n")), "", citem.clone()),
        "duplicated-error" => inv("contract", "", format!("#[sv::error(CErr)]\n#[sv::error(CErr)]\n{}", citem.lines().filter(|l| !l.starts_with("#[sv::error")).collect::<Vec<_>>().join("\n")), "", citem.clone()),
        "unknown-messages-custom-flag" => inv("contract", "", format!("#[sv::messages(zz_if as ZzIf: custom(message))]\n{citem}"), "", format!("#[sv::messages(zz_if as ZzIf: custom(msg))]\n{citem}")),
        "messages-trailing-tokens" => inv("contract", "", format!("#[sv::messages(zz_if as ZzIf: custom(msg) extra)]\n{citem}"), "", format!("#[sv::messages(zz_if as ZzIf: custom(msg))]\n{citem}")),
        "unknown-msg-attr-kind" => inv("contract", "", format!("#[sv::msg_attr(execute, derive(PartialOrd))]\n{citem}"), "", format!("#[sv::msg_attr(exec, derive(PartialOrd))]\n{citem}")),
        "unknown-override-kind" => inv("contract", "", format!("#[sv::override_entry_point(execute=ovr::execute(ovr::OvrMsg))]\n{citem}"), "", format!("#[sv::override_entry_point(exec=ovr::execute(ovr::OvrMsg))]\n{citem}")),
        "sv-attr-on-instantiate" | "sv-attr-on-migrate" => {
            let kind = if rule == "sv-attr-on-instantiate" { "instantiate" } else { "migrate" };
            if kind == "migrate" && !p.has_kind(0, Kind::Migrate) {
                p.contract.methods.push(Method { name: "vp_mig".into(), role: Role::Handler(Kind::Migrate), args: vec![], err: ErrTy::Std, resp: RespTy::EchoA, resp_explicit: false, variant_attrs: vec![], reply: None });
            }
            let valid = render::render_contract_item(&p);
            let line = first_method_line(&valid, &format!("#[sv::msg({kind})]"))?.to_string();
            // the forwarded attribute may stand on either side of `sv::msg`
            let bad = if t.chance(50) { format!("{line}\n    #[sv::attr(serde(rename = \"x\"))]") } else { format!("    #[sv::attr(serde(rename = \"x\"))]\n{line}") };
            inv("contract", "", valid.replacen(&line, &bad, 1), "", valid.clone())
        }
        "entry-points-too-few-types" | "entry-points-too-many-types" | "entry-points-no-instantiate" => {
            if p.contract.generics.is_empty() {
                p.contract.generics = vec![Ty::Rec, Ty::MyMsg];
            }
            let valid_item = format!("#[contract]\n{}", render::render_contract_item(&p));
            let valid_attr = render::entry_points_attr(&p);
            match rule {
                "entry-points-too-few-types" => {
                    let n = p.contract.generics.len();
                    let fewer = vec!["Rec"; n - 1].join(", ");
                    let attr = if n == 1 { String::new() } else { format!("generics<{fewer}>") };
                    inv("entry_points", &attr, valid_item.clone(), &valid_attr, valid_item)
                }
                "entry-points-too-many-types" => {
                    let n = p.contract.generics.len();
                    inv("entry_points", &format!("generics<{}>", vec!["Rec"; n + 1].join(", ")), valid_item.clone(), &valid_attr, valid_item)
                }
                _ => {
                    let mut q = p.clone();
                    q.contract.methods.retain(|m| m.kind() != Some(Kind::Instantiate));
                    inv("entry_points", &valid_attr, format!("#[contract]\n{}", render::render_contract_item(&q)), &valid_attr, valid_item)
                }
            }
        }
        _ => None,
    }
}

pub fn check_invalid(ex: &mut Expander, case: &Invalid, st: &mut Stats) -> Result<(), Bad> {
    st.class(&format!("rule:{}", case.rule));
    st.nontrivial(&(&case.rule, &case.item));
    st.sample(|| json!({"rule": case.rule, "macro": case.which, "attr": case.attr, "item": case.item.chars().take(500).collect::<String>()}));
    // the unedited program must be accepted (guards the catalogue itself)
    let v = ex.expand(&case.which, &case.valid_attr, &case.valid_item).map_err(Bad::Harness)?;
    if !v.accepted() {
        return Err(Bad::Harness(format!("HARNESS: base program of rule {} is not accepted: {}", case.rule, short(&v))));
    }
    let e = ex.expand(&case.which, &case.attr, &case.item).map_err(Bad::Harness)?;
    match &e {
        Expansion::Dirty => Ok(()),
        Expansion::Clean(_) if !e.accepted() => Ok(()),
        Expansion::Clean(_) => Err(viol(
            format!("accepted:{}", case.rule),
            "a program breaking a documented rule is accepted without a diagnostic",
            json!({"rule": case.rule, "macro": case.which, "attr": case.attr, "item": case.item}),
        )),
        Expansion::Panic(m) => Err(viol(
            format!("panic:{}", case.rule),
            "a program breaking a documented rule makes the macro panic instead of emitting its diagnostic",
            json!({"rule": case.rule, "panic": m, "macro": case.which, "item": case.item}),
        )),
        Expansion::BadRequest(m) => Err(Bad::Harness(format!("HARNESS: edited item does not lex: {m}"))),
    }
}

/// All reply tables of <= 3 methods over 2 names x 3 outcomes, every declaration order.
pub fn reply_tables() -> Vec<(Vec<(usize, ReplyOn)>, String, bool)> {
    let opts: Vec<(usize, ReplyOn)> = (0..2).flat_map(|n| [ReplyOn::Success, ReplyOn::Error, ReplyOn::Always].into_iter().map(move |o| (n, o))).collect();
    let mut tables: Vec<Vec<(usize, ReplyOn)>> = vec![];
    for a in &opts {
        tables.push(vec![*a]);
        for b in &opts {
            tables.push(vec![*a, *b]);
            for c in &opts {
                tables.push(vec![*a, *b, *c]);
            }
        }
    }
    tables
        .into_iter()
        .map(|tb| {
            let mut item = String::from("#[sv::features(replies)]\nimpl Ctr {\n    pub const fn new() -> Self { Self }\n    #[sv::msg(instantiate)]\n    fn inst(&self, ctx: InstantiateCtx) -> Result<Response, StdError> { todo!() }\n");
            for (i, (n, on)) in tb.iter().enumerate() {
                let second = match on {
                    ReplyOn::Success => "",
                    ReplyOn::Error => "error: String, ",
                    ReplyOn::Always => "result: SubMsgResult, ",
                };
                item.push_str(&format!(
                    "    #[sv::msg(reply, handlers=[{}], reply_on={})]\n    fn m{i}(&self, ctx: ReplyCtx, {second}#[sv::payload(raw)] payload: Binary) -> Result<Response, StdError> {{ todo!() }}\n",
                    ["on_a", "on_b"][*n],
                    on.attr()
                ));
            }
            item.push_str("}\n");
            // model: conflict iff two methods claim the same (name, outcome), always = both
            let mut conflict = false;
            for i in 0..tb.len() {
                for j in i + 1..tb.len() {
                    if tb[i].0 == tb[j].0 {
                        let (a, b) = (tb[i].1, tb[j].1);
                        if (a.covers_ok() && b.covers_ok()) || (a.covers_err() && b.covers_err()) {
                            conflict = true;
                        }
                    }
                }
            }
            (tb, item, conflict)
        })
        .collect()
}

pub fn run(ctx: &Ctx, exe: &std::path::PathBuf, out: &mut Outcome) {
    let per_rule = if ctx.quick() { 30 } else { 600 };
    for rule in RULES {
        let rule = rule.to_string();
        let salt = format!("rule:{rule}");
        let r2 = rule.clone();
        let res = run_generated(
            ctx,
            exe,
            &salt,
            move || {
                use proptest::strategy::Strategy;
                let r = r2.clone();
                tape_strategy(600).prop_filter_map("rule not applicable to this base", move |t| make_invalid(&r, t)).boxed()
            },
            per_rule,
            if ctx.quick() { 2 } else { 8 },
            check_invalid,
        );
        to_outcome(ctx, &salt, res, out);
    }
    // exhaustive small reply tables
    if ctx.replay.is_none() {
        let tables = reply_tables();
        let mut st = Stats::default();
        let mut failures = vec![];
        let mut harness = vec![];
        match Expander::spawn(exe) {
            Ok(mut ex) => {
                for (tb, item, conflict) in &tables {
                    st.evaluations += 1;
                    st.class(if *conflict { "reply-table:conflicting" } else { "reply-table:valid" });
                    st.nontrivial(item);
                    match ex.expand("contract", "", item) {
                        Ok(e) => {
                            let rejected = !e.accepted();
                            if let Expansion::Panic(m) = &e {
                                failures.push(E1Failure { key: "reply-table:panic".into(), what: "reply table makes the macro panic".into(), case: json!({"table": format!("{tb:?}"), "item": item}), detail: json!({"panic": m}) });
                            } else if rejected != *conflict {
                                let key = if *conflict { "reply-table:conflict-accepted" } else { "reply-table:valid-rejected" };
                                if !failures.iter().any(|f: &E1Failure| f.key == key) {
                                    failures.push(E1Failure { key: key.into(), what: "reply table accepted/rejected against the rule `two methods must not claim the same (name, outcome)`".into(), case: json!({"table": format!("{tb:?}"), "item": item}), detail: json!({"model_conflict": conflict, "macro_rejected": rejected}) });
                                }
                            }
                        }
                        Err(e) => harness.push(e),
                    }
                }
                st.expansions = ex.requests;
            }
            Err(e) => harness.push(e),
        }
        out.extra.insert("exhaustive_subspace".into(), json!({"what": "all reply tables of <=3 methods over 2 handler names x 3 outcomes in every declaration order", "size": tables.len()}));
        to_outcome(ctx, "reply-tables", E1Result { stats: st, failures, harness }, out);
    }
}
