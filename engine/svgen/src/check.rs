//! `svgen check <id>`: orchestration of one property check (generation, build, run,
//! evidence, replay files, known findings, exit code).

use crate::corpus::{self, CorpusSpec};
use crate::gen::GenOpts;
use serde_json::{json, Value};
use std::path::{Path, PathBuf};
use std::process::Command;
use std::time::Instant;
use svmodel::Program;

pub struct Ctx {
    pub prop: String,
    pub tier: String,
    pub seed: u64,
    pub replay: Option<PathBuf>,
    pub known: Vec<Known>,
    pub t0: Instant,
}

#[derive(Clone, Debug)]
pub struct Known {
    pub property: String,
    pub key: String,
    pub desc: String,
}

#[derive(Default)]
pub struct Outcome {
    pub evaluations: u64,
    pub nontrivial: u64,
    pub programs: u64,
    pub rule: String,
    pub samples: Vec<Value>,
    pub classes: Value,
    pub extra: serde_json::Map<String, Value>,
    pub assumptions: Vec<String>,
    /// (key, what, replay path)
    pub violations: Vec<(String, String, PathBuf)>,
    /// known-finding descriptions that were hit
    pub known_hits: Vec<String>,
    pub inconclusive: Option<String>,
    pub exhaustive: bool,
}

impl Ctx {
    pub fn quick(&self) -> bool {
        self.tier != "thorough"
    }
    pub fn known_keys(&self) -> Vec<String> {
        self.known.iter().filter(|k| k.property == self.prop).map(|k| k.key.clone()).collect()
    }
    pub fn replay_dir(&self) -> PathBuf {
        let d = Path::new(corpus::VERIF).join("replays").join(&self.prop);
        std::fs::create_dir_all(&d).unwrap();
        d
    }
    pub fn save_replay(&self, v: &Value) -> PathBuf {
        use sha2::Digest;
        let text = serde_json::to_string_pretty(v).unwrap();
        let h = hex::encode(&sha2::Sha256::digest(text.as_bytes())[..6]);
        let path = self.replay_dir().join(format!("{h}.json"));
        std::fs::write(&path, text).unwrap();
        path
    }
}

pub fn load_known() -> Vec<Known> {
    let path = Path::new(corpus::VERIF).join("known_findings.txt");
    let Ok(text) = std::fs::read_to_string(path) else { return vec![] };
    let mut out = vec![];
    for line in text.lines() {
        let line = line.trim();
        let Some(rest) = line.strip_prefix("finding:") else { continue };
        let mut property = String::new();
        let mut key = String::new();
        let mut desc = vec![];
        for tok in rest.split_whitespace() {
            if let Some(p) = tok.strip_prefix("property=") {
                property = p.to_string();
            } else if let Some(k) = tok.strip_prefix("key=") {
                key = k.to_string();
            } else {
                desc.push(tok);
            }
        }
        if !property.is_empty() && !key.is_empty() {
            out.push(Known { property, key, desc: desc.join(" ") });
        }
    }
    out
}

/// Run a command with a watchdog; None = timed out.  stdout / stderr are drained by two
/// reader threads while the child runs (a child that fills a pipe would otherwise block
/// forever -- libFuzzer prints one line per new input).
pub fn run_with_timeout(mut cmd: Command, secs: u64) -> Option<std::process::Output> {
    use std::io::Read;
    let mut child = cmd.stdout(std::process::Stdio::piped()).stderr(std::process::Stdio::piped()).spawn().ok()?;
    let drain = |r: Option<Box<dyn Read + Send>>| {
        std::thread::spawn(move || {
            let mut buf = vec![];
            if let Some(mut r) = r {
                let _ = r.read_to_end(&mut buf);
            }
            buf
        })
    };
    let h_out = drain(child.stdout.take().map(|o| Box::new(o) as Box<dyn Read + Send>));
    let h_err = drain(child.stderr.take().map(|e| Box::new(e) as Box<dyn Read + Send>));
    let t0 = Instant::now();
    let status = loop {
        match child.try_wait() {
            Ok(Some(st)) => break st,
            Ok(None) => {
                if t0.elapsed().as_secs() > secs {
                    let _ = child.kill();
                    let _ = child.wait();
                    return None;
                }
                std::thread::sleep(std::time::Duration::from_millis(50));
            }
            Err(_) => return None,
        }
    };
    let out = h_out.join().unwrap_or_default();
    let err = h_err.join().unwrap_or_default();
    Some(std::process::Output { status, stdout: out, stderr: err })
}

pub struct E2Spec<'a> {
    /// property id passed to the corpus binary (defaults to the check's id)
    pub exe_prop: Option<&'a str>,
    pub family: &'a str,
    pub programs: Vec<Program>,
    pub cases: u32,
    pub rule: &'a str,
    pub assumptions: Vec<String>,
    pub alias: Option<&'a str>,
}

/// Engine E2: build the corpus, run the property inside it, collect the report.
pub fn e2_run(ctx: &Ctx, spec: E2Spec) -> Outcome {
    let mut out = Outcome { rule: spec.rule.to_string(), assumptions: spec.assumptions.clone(), ..Default::default() };
    if spec.programs.is_empty() {
        return out;
    }
    let corpus_name = if ctx.replay.is_some() {
        format!("replay_{}", spec.family)
    } else {
        format!("{}_{}", spec.family, ctx.tier)
    };
    let nlibs = if spec.programs.len() >= 16 { 8 } else { 1 };
    let cspec = CorpusSpec { name: &corpus_name, programs: &spec.programs, alias: spec.alias, extra_files: vec![], bin_skip: vec![] };
    let dir = corpus::write_corpus(&cspec, nlibs);
    let build = corpus::cargo_build(&dir, &[], "corpus");
    if !build.ok {
        // attribute errors to programs by file name
        let mut by_prog: std::collections::BTreeMap<String, Vec<String>> = Default::default();
        for e in &build.errors {
            let stem = Path::new(&e.file).file_stem().map(|s| s.to_string_lossy().to_string()).unwrap_or_default();
            by_prog.entry(stem).or_default().push(format!("{}:{}: {}", e.file, e.line, e.message));
        }
        let mut any = false;
        let mut shrunk_done = 0usize;
        for p in &spec.programs {
            if let Some(errs) = by_prog.get(&p.id) {
                any = true;
                let src = crate::render::render_module(p, &crate::render::RenderOpts { sv: spec.alias.unwrap_or("sylvia").into(), glue: true });
                let mut v = json!({"property": ctx.prop, "family": spec.family, "kind": "compile_regression", "program": p.id,
                    "model": p, "errors": errs, "source": src, "seed": ctx.seed, "tier": ctx.tier});
                let mut path = ctx.save_replay(&v);
                if shrink_allowed(ctx, shrunk_done) {
                    shrunk_done += 1;
                    announce_unshrunk(ctx, "compile", &path);
                    let message = build.errors.iter().find(|e| Path::new(&e.file).file_stem().map(|s| s.to_string_lossy() == p.id.as_str()).unwrap_or(false)).map(|e| e.message.clone()).unwrap_or_default();
                    let sspec = crate::shrink::ShrinkSpec { family: spec.family, exe_prop: spec.exe_prop.unwrap_or(&ctx.prop), cases: spec.cases, alias: spec.alias, budget_s: if ctx.quick() { 240 } else { 900 } };
                    if let Some(s) = crate::shrink::shrink(ctx, &sspec, &crate::shrink::Target::Compile { message }, p) {
                        v["unshrunk_replay"] = json!(path.display().to_string());
                        v["program"] = json!(s.program.id);
                        v["source"] = json!(crate::render::render_module(&s.program, &crate::render::RenderOpts { sv: spec.alias.unwrap_or("sylvia").into(), glue: true }));
                        v["model"] = json!(s.program);
                        v["errors"] = json!(s.errors);
                        v["shrink"] = s.stats;
                        path = ctx.save_replay(&v);
                    }
                }
                out.violations.push(("compile".into(), format!("valid generated program {} does not compile: {}", p.id, errs[0]), path));
                if out.violations.len() >= 3 {
                    break;
                }
            }
        }
        if !any {
            out.inconclusive = Some(format!("corpus build failed outside generated programs:\n{}\n{}", build.errors.iter().take(3).map(|e| e.rendered.clone()).collect::<Vec<_>>().join("\n"), build.raw_tail));
        }
        out.programs = spec.programs.len() as u64;
        return out;
    }
    let exe = match build.exe {
        Some(e) => e,
        None => {
            out.inconclusive = Some("corpus build produced no executable".into());
            return out;
        }
    };
    let report_path = dir.join(format!("report_{}.json", spec.exe_prop.unwrap_or(&ctx.prop)));
    let _ = std::fs::remove_file(&report_path);
    let mut cmd = Command::new(&exe);
    cmd.arg("--prop").arg(spec.exe_prop.unwrap_or(&ctx.prop)).arg("--seed").arg(ctx.seed.to_string()).arg("--cases").arg(spec.cases.to_string()).arg("--out").arg(&report_path);
    for k in ctx.known_keys() {
        cmd.arg("--known").arg(k);
    }
    if let Some(r) = &ctx.replay {
        cmd.arg("--replay").arg(r);
    }
    cmd.env("RUST_BACKTRACE", "0");
    let limit = if ctx.quick() { 1500 } else { 6 * 3600 };
    let Some(res) = run_with_timeout(cmd, limit) else {
        out.inconclusive = Some("corpus binary timed out (watchdog)".into());
        return out;
    };
    if !res.status.success() {
        out.inconclusive = Some(format!("corpus binary failed: {}", String::from_utf8_lossy(&res.stderr)));
        return out;
    }
    let text = match std::fs::read_to_string(&report_path) {
        Ok(t) => t,
        Err(e) => {
            out.inconclusive = Some(format!("no report written: {e}"));
            return out;
        }
    };
    let rep: Value = serde_json::from_str(&text).unwrap();
    out.evaluations = rep["evaluations"].as_u64().unwrap_or(0);
    out.nontrivial = rep["nontrivial"].as_array().map(|a| a.len() as u64).unwrap_or(0);
    out.programs = rep["programs"].as_u64().unwrap_or(0);
    out.samples = rep["samples"].as_array().cloned().unwrap_or_default();
    out.classes = rep["classes"].clone();
    if let Some(h) = rep["harness_errors"].as_array() {
        if !h.is_empty() {
            out.inconclusive = Some(format!("harness errors: {}", h.iter().take(3).map(|x| x.to_string()).collect::<Vec<_>>().join(" | ")));
        }
    }
    let mut shrunk_done = 0usize;
    for f in rep["failures"].as_array().cloned().unwrap_or_default() {
        let key = f["key"].as_str().unwrap_or("").to_string();
        let known = f["detail"]["known"].as_bool().unwrap_or(false);
        if known {
            if let Some(k) = ctx.known.iter().find(|k| k.property == ctx.prop && k.key == key) {
                let line = format!("{} [{}]", k.desc, key);
                if !out.known_hits.contains(&line) {
                    out.known_hits.push(line);
                }
            }
            continue;
        }
        let pid = f["program"].as_str().unwrap_or("");
        let model = spec.programs.iter().find(|p| p.id == pid);
        let mut v = json!({"property": ctx.prop, "family": spec.family, "program": pid, "model": model,
            "salt": f["detail"]["salt"], "case": f["detail"]["case"], "key": key, "what": f["what"],
            "detail": f["detail"]["detail"], "seed": ctx.seed, "tier": ctx.tier,
            "source": model.map(|m| crate::render::render_source(m, &crate::render::RenderOpts::default()))});
        let mut path = ctx.save_replay(&v);
        // program-level shrinking (values were shrunk by proptest inside the corpus binary)
        if let (true, Some(m)) = (shrink_allowed(ctx, shrunk_done), model) {
            shrunk_done += 1;
            announce_unshrunk(ctx, &key, &path);
            let sspec = crate::shrink::ShrinkSpec { family: spec.family, exe_prop: spec.exe_prop.unwrap_or(&ctx.prop), cases: spec.cases, alias: spec.alias, budget_s: if ctx.quick() { 240 } else { 900 } };
            if let Some(s) = crate::shrink::shrink(ctx, &sspec, &crate::shrink::Target::Runtime { key: key.clone() }, m) {
                if let Some(f2) = &s.failure {
                    v["unshrunk_replay"] = json!(path.display().to_string());
                    v["program"] = json!(s.program.id);
                    v["source"] = json!(crate::render::render_source(&s.program, &crate::render::RenderOpts::default()));
                    v["model"] = json!(s.program);
                    v["salt"] = f2["detail"]["salt"].clone();
                    v["case"] = f2["detail"]["case"].clone();
                    v["detail"] = f2["detail"]["detail"].clone();
                    v["what"] = f2["what"].clone();
                    v["shrink"] = s.stats;
                    path = ctx.save_replay(&v);
                }
            }
        }
        out.violations.push((key, f["what"].as_str().unwrap_or("").to_string(), path));
    }
    out
}

fn shrink_allowed(ctx: &Ctx, done: usize) -> bool {
    ctx.replay.is_none() && std::env::var("VERIF_NO_SHRINK").is_err() && done < if ctx.quick() { 1 } else { 2 }
}

/// The violation is reported at once (the shrinking that follows can take minutes).
fn announce_unshrunk(ctx: &Ctx, key: &str, path: &Path) {
    use std::io::Write;
    println!("VIOLATION property={} replay={}", ctx.prop, path.display());
    println!("  key={key} (unshrunk program; shrinking the program now)");
    let _ = std::io::stdout().flush();
}

pub fn finish(ctx: &Ctx, out: Outcome) -> i32 {
    let wall = ctx.t0.elapsed().as_secs_f64();
    let mut coverage = serde_json::Map::new();
    coverage.insert("evaluations".into(), json!(out.evaluations));
    coverage.insert("distinct_nontrivial".into(), json!(out.nontrivial));
    coverage.insert("rule".into(), json!(out.rule));
    coverage.insert("samples".into(), json!(out.samples));
    coverage.insert("programs".into(), json!(out.programs));
    coverage.insert("classes".into(), out.classes.clone());
    coverage.insert("known_findings_hit".into(), json!(out.known_hits));
    if out.exhaustive {
        coverage.insert("exhaustive".into(), json!(true));
    }
    for (k, v) in out.extra {
        coverage.insert(k, v);
    }
    if let Some(i) = &out.inconclusive {
        coverage.insert("inconclusive".into(), json!(i));
    }
    let ev = json!({
        "property_id": ctx.prop,
        "tier": if ctx.quick() { "quick" } else { "thorough" },
        "seed": ctx.seed,
        "level": "exploration",
        "coverage": coverage,
        "assumptions": out.assumptions,
        "wall_s": wall,
        "violations": out.violations.len(),
    });
    if ctx.replay.is_none() {
        let dir = Path::new(corpus::VERIF).join("evidence");
        std::fs::create_dir_all(&dir).unwrap();
        std::fs::write(dir.join(format!("{}.json", ctx.prop)), serde_json::to_string_pretty(&ev).unwrap()).unwrap();
    }
    for k in &out.known_hits {
        println!("KNOWN-FINDING: property={} {}", ctx.prop, k);
    }
    for (key, what, path) in &out.violations {
        println!("VIOLATION property={} replay={}", ctx.prop, path.display());
        println!("  key={key} {what}");
    }
    if let Some(i) = &out.inconclusive {
        println!("INCONCLUSIVE property={} {}", ctx.prop, i);
    }
    println!(
        "{} {}: evaluations={} nontrivial={} programs={} violations={} wall={:.1}s",
        ctx.prop,
        ctx.tier,
        out.evaluations,
        out.nontrivial,
        out.programs,
        out.violations.len(),
        wall
    );
    if !out.violations.is_empty() {
        1
    } else if out.inconclusive.is_some() {
        2
    } else {
        0
    }
}

pub fn msg_opts_s1() -> GenOpts {
    GenOpts { s2_names: false, ..GenOpts::default() }
}

/// Programs for a replay: the single program stored in the replay file.
pub fn replay_programs(ctx: &Ctx) -> Option<Vec<Program>> {
    let path = ctx.replay.as_ref()?;
    // a replay file that is not one of our JSON records (e.g. a fuzz artifact) selects no program
    let Some(v) = std::fs::read(path).ok().and_then(|b| serde_json::from_slice::<Value>(&b).ok()) else {
        return Some(vec![]);
    };
    if v["program"] == "runtime" || v["engine"] == "E1" {
        // not a program replay: run nothing program-specific
        return Some(vec![]);
    }
    match serde_json::from_value::<Program>(v["model"].clone()) {
        Ok(p) => Some(vec![p]),
        Err(_) => Some(vec![]),
    }
}

const A_SERDE: &str = "typed argument values are obtained from model JSON through each argument type's own serde impl (cosmwasm-std / svrt types), not through sylvia-generated code";
const A_NATIVE: &str = "generated code is exercised natively, not on wasm32";
const A_ECHO: &str = "handler bodies are generated echo functions (svrt::echo_*); user logic inside handlers is out of scope";
const A_DOMAIN: &str = "program generator domain: 0..3 interfaces, all non-reply kinds, 0..3 generic parameters with where-clause bounds, custom msg/query variants, forwarded attributes; no lifetimes, pattern parameters or inline bounds";

fn msg_family(ctx: &Ctx, s2: bool, family: &'static str, rule: &'static str, assumptions: &[&str]) -> Outcome {
    msg_family_opts(ctx, GenOpts { s2_names: s2, ..GenOpts::default() }, family, rule, assumptions)
}

fn msg_family_opts(ctx: &Ctx, opts: GenOpts, family: &'static str, rule: &'static str, assumptions: &[&str]) -> Outcome {
    let quick = ctx.quick();
    let (nprog, cases) = if quick { (48usize, 64u32) } else { (640, 256) };
    let programs = replay_programs(ctx).unwrap_or_else(|| crate::fam_msg(ctx.seed, nprog, &opts));
    e2_run(ctx, E2Spec { exe_prop: None, family, programs, cases, rule, assumptions: assumptions.iter().map(|s| s.to_string()).collect(), alias: None })
}

/// Engine E5: a bounded libFuzzer campaign over a hand-written fixture (thorough tier only).
/// The semantic oracle lives inside the target; a crash artifact is the replay file.
/// Build one fuzz target (cargo-fuzz, nightly, ASan) and return its executable; the campaign
/// and replays then run the binary directly, so the watchdog kills the fuzzer itself.
fn fuzz_exe(target: &str) -> Result<PathBuf, String> {
    let fuzz_dir = format!("{}/engine/fuzz", corpus::VERIF);
    let tdir = corpus::target_dir("fuzz");
    let o = Command::new("cargo")
        .args(["+nightly", "fuzz", "build", "--fuzz-dir", &fuzz_dir, "--target-dir"])
        .arg(&tdir)
        .arg(target)
        .env("CARGO_NET_OFFLINE", "true")
        .output()
        .map_err(|e| e.to_string())?;
    if !o.status.success() {
        let err = String::from_utf8_lossy(&o.stderr);
        return Err(format!("fuzz target {target} does not build: {}", err.lines().filter(|l| l.starts_with("error")).take(3).collect::<Vec<_>>().join(" | ")));
    }
    let exe = tdir.join("x86_64-unknown-linux-gnu").join("release").join(target);
    if exe.exists() {
        Ok(exe)
    } else {
        Err(format!("fuzz target {target}: no executable at {}", exe.display()))
    }
}

pub fn fuzz_campaign(ctx: &Ctx, target: &str, runs: u64, out: &mut Outcome) {
    let fuzz_dir = format!("{}/engine/fuzz", corpus::VERIF);
    let exe = match fuzz_exe(target) {
        Ok(e) => e,
        Err(e) => {
            out.inconclusive = Some(e);
            return;
        }
    };
    // replay of a saved artifact
    if let Some(r) = &ctx.replay {
        let name = r.file_name().map(|n| n.to_string_lossy().to_string()).unwrap_or_default();
        if !name.starts_with(&format!("fuzz-{target}-")) {
            return;
        }
        let mut cmd = Command::new(&exe);
        cmd.arg(r).env("RUST_BACKTRACE", "0");
        match run_with_timeout(cmd, 1800) {
            Some(o) if o.status.success() => {}
            Some(_) => out.violations.push((format!("fuzz:{target}"), format!("fuzz target {target} fails on the saved input"), r.clone())),
            None => out.inconclusive = Some("fuzz replay timed out".into()),
        }
        out.evaluations += 1;
        return;
    }
    let corpus_dir = Path::new(corpus::VERIF).join("work").join("fuzz_corpus").join(format!("{target}-{}", ctx.seed));
    let _ = std::fs::remove_dir_all(&corpus_dir);
    std::fs::create_dir_all(&corpus_dir).unwrap();
    let seeds = Path::new(&fuzz_dir).join("seeds").join(target);
    if let Ok(rd) = std::fs::read_dir(&seeds) {
        for e in rd.flatten() {
            let _ = std::fs::copy(e.path(), corpus_dir.join(e.file_name()));
        }
    }
    let prefix = format!("{}/fuzz-{target}-", ctx.replay_dir().display());
    let mut cmd = Command::new(&exe);
    cmd.arg(&corpus_dir)
        .arg(format!("-runs={runs}"))
        .arg(format!("-seed={}", (ctx.seed % 0x7fff_ffff).max(1)))
        .arg("-len_control=0")
        .arg("-max_len=512")
        .arg("-timeout=30")
        .arg(format!("-artifact_prefix={prefix}"))
        .env("RUST_BACKTRACE", "0");
    let Some(o) = run_with_timeout(cmd, 3 * 3600) else {
        out.inconclusive = Some(format!("fuzz campaign {target} hit the watchdog (inconclusive, not a violation)"));
        return;
    };
    let err = String::from_utf8_lossy(&o.stderr).to_string();
    let done = err.lines().rev().find(|l| l.contains("DONE") || l.contains("cov:")).unwrap_or("").to_string();
    let mut info = serde_json::Map::new();
    info.insert("target".into(), json!(target));
    info.insert("runs_requested".into(), json!(runs));
    info.insert("last_status_line".into(), json!(done.trim()));
    let mut fuzz = out.extra.get("fuzz_campaigns").cloned().unwrap_or(json!([]));
    if o.status.success() {
        out.evaluations += runs;
        fuzz.as_array_mut().unwrap().push(Value::Object(info));
        out.extra.insert("fuzz_campaigns".into(), fuzz);
        return;
    }
    // crash / oracle failure: find the artifact
    let artifact = err
        .lines()
        .find_map(|l| l.split("Test unit written to ").nth(1).map(|p| p.trim().to_string()));
    let msg = err.lines().find(|l| l.contains("violated") || l.contains("panicked at")).unwrap_or("fuzz target failed").chars().take(400).collect::<String>();
    match artifact {
        Some(a) => out.violations.push((format!("fuzz:{target}"), msg, PathBuf::from(a))),
        None => {
            if err.contains("error: could not compile") || err.contains("failed to build") {
                out.inconclusive = Some(format!("fuzz target {target} does not build: {}", err.lines().filter(|l| l.starts_with("error")).take(3).collect::<Vec<_>>().join(" | ")));
            } else {
                out.inconclusive = Some(format!("fuzz target {target} exited abnormally without an artifact: {}", err.lines().rev().take(5).collect::<Vec<_>>().join(" | ")));
            }
        }
    }
    info.insert("failed".into(), json!(true));
    fuzz.as_array_mut().unwrap().push(Value::Object(info));
    out.extra.insert("fuzz_campaigns".into(), fuzz);
}

fn with_fuzz(ctx: &Ctx, mut out: Outcome, target: &str, note: &str) -> Outcome {
    if !ctx.quick() || ctx.replay.is_some() {
        let runs = 5_000_000;
        fuzz_campaign(ctx, target, runs, &mut out);
        out.rule.push_str(&format!(" || (E5, thorough tier) coverage-guided libFuzzer campaign `{target}` of {runs} runs over a hand-written fixture contract with the semantic oracle inside the target: {note}"));
    }
    out
}

/// Runtime-only properties (engine E4) run once inside the small `warm` corpus binary.
fn runtime_prop(ctx: &Ctx, exe_prop: &'static str, rule: &'static str, assumptions: &[&str]) -> Outcome {
    let programs = crate::fam_msg(1, 2, &GenOpts::default());
    let cases = if ctx.quick() { 400 } else { 10000 };
    let mut c2 = Ctx { prop: ctx.prop.clone(), tier: ctx.tier.clone(), seed: ctx.seed, replay: ctx.replay.clone(), known: ctx.known.clone(), t0: ctx.t0 };
    if let Some(r) = &ctx.replay {
        // runtime replays carry no program: only pass them on when they belong to this runtime property
        let v: Value = std::fs::read(r).ok().and_then(|b| serde_json::from_slice(&b).ok()).unwrap_or(Value::Null);
        if v["program"] != "runtime" {
            c2.replay = None;
            return Outcome { rule: rule.to_string(), ..Default::default() };
        }
    }
    let mut out = e2_run(&c2, E2Spec { exe_prop: Some(exe_prop), family: "warm", programs, cases, rule, assumptions: assumptions.iter().map(|s| s.to_string()).collect(), alias: None });
    out.programs = 0;
    out
}

pub fn merge_outcomes(mut a: Outcome, b: Outcome) -> Outcome {
    a.evaluations += b.evaluations;
    a.nontrivial += b.nontrivial;
    a.programs += b.programs;
    a.rule = format!("{} || {}", a.rule, b.rule);
    a.samples.extend(b.samples);
    let mut classes: std::collections::BTreeMap<String, u64> = serde_json::from_value(a.classes.clone()).unwrap_or_default();
    let cb: std::collections::BTreeMap<String, u64> = serde_json::from_value(b.classes.clone()).unwrap_or_default();
    for (k, v) in cb {
        *classes.entry(k).or_insert(0) += v;
    }
    a.classes = json!(classes);
    for x in b.assumptions {
        if !a.assumptions.contains(&x) {
            a.assumptions.push(x);
        }
    }
    a.violations.extend(b.violations);
    for k in b.known_hits {
        if !a.known_hits.contains(&k) {
            a.known_hits.push(k);
        }
    }
    if a.inconclusive.is_none() {
        a.inconclusive = b.inconclusive;
    }
    for (k, v) in b.extra {
        a.extra.insert(k, v);
    }
    a
}

fn reply_family(ctx: &Ctx, any_order: bool, family: &'static str, rule: &'static str, assumptions: &[&str]) -> Outcome {
    let quick = ctx.quick();
    let (nprog, cases) = if quick { (48usize, 200u32) } else { (640, 800) };
    let programs = replay_programs(ctx).unwrap_or_else(|| crate::fam_reply(ctx.seed, nprog, &GenOpts::default(), any_order));
    e2_run(ctx, E2Spec { exe_prop: None, family, programs, cases, rule, assumptions: assumptions.iter().map(|s| s.to_string()).collect(), alias: None })
}

const A_REPLY: &str = "reply family domain: 1..3 handler names; per name success-only / error-only / both via two methods / always; methods shared between names via handlers=[..]; all seven data markers; raw / 1..3 typed payload values; generic and custom-typed contracts; reply handlers return the contract's error type and payload types do not mention contract type parameters (both required for such programs to compile)";

fn e1_tape(
    ctx: &Ctx,
    salt: &str,
    cases: u32,
    f: fn(&mut crate::expander::Expander, &Vec<u32>, &mut crate::e1::Stats) -> Result<(), crate::e1::Bad>,
    rule: &str,
    assumptions: &[&str],
) -> Outcome {
    let mut out = Outcome { rule: rule.to_string(), assumptions: assumptions.iter().map(|s| s.to_string()).collect(), ..Default::default() };
    match crate::e1::expander_exe() {
        Ok(exe) => crate::e1props::run_tape_prop(ctx, &exe, salt, cases, f, &mut out),
        Err(e) => out.inconclusive = Some(e),
    }
    out
}

pub fn run(ctx: &Ctx) -> i32 {
    // global watchdog: a check that hangs (in the driver itself, not only in a child process)
    // ends as inconclusive (exit 2), never as a pass or a violation
    {
        let (prop, limit) = (ctx.prop.clone(), if ctx.quick() { 45 * 60 } else { 10 * 3600 });
        std::thread::spawn(move || {
            std::thread::sleep(std::time::Duration::from_secs(limit));
            println!("INCONCLUSIVE property={prop} the check did not finish within {limit} s (watchdog)");
            std::process::exit(2);
        });
    }
    let out = match ctx.prop.as_str() {
        "C01" => {
            let mut out = msg_family(ctx, false, "fam_msg_s1",
            "programs drawn from the fam_msg generator (S1 method names); per handler `cases` argument tuples from per-type JSON strategies; oracle = model JSON {name:{arg:enc}} vs to_json, literal==constructor, from_json of own and model text; plus per message type the accept/reject set over all method names and their mutations. Non-trivial = handler has >=1 argument or a multi-word / digit-bearing name (distinct by program, handler, argument values), or a foreign-name acceptance probe.",
            &[A_SERDE, A_NATIVE, A_DOMAIN, "floats and raw u128 are excluded (CosmWasm JSON rejects them)"]);
            out.rule.push_str(" || (E3 probe units) for 17 argument names that coincide with identifiers used inside the generated code (contract, ctx, msg, deps, env, info, field1, ..) x the five kinds: the program must compile.");
            crate::e3props::run_probes(ctx, "units_c01", crate::e3props::c01_probes(), None, &mut out);
            out
        }
        "C02" => msg_family(ctx, false, "fam_msg_s1",
            "fam_msg programs with echo handlers; per handler `cases` tuples (argument values, env, sender/funds, storage/api/querier nonces, ok/fail outcome); message dispatched on the part type and through the contract-level wrapper; oracle = call log == [that handler] once with equal args/env/info and nonce probes, caller's response / error / query payload equal to the handler's own. Non-trivial = two same-typed arguments, a same-signature sibling handler, or the failing outcome.",
            &[A_ECHO, A_SERDE, A_NATIVE, A_DOMAIN, "mock storage/api/querier stand in for the chain"]),
        "C03" => with_fuzz(ctx, msg_family(ctx, true, "fam_msg_s2",
            "fam_msg programs with S2 method names (digits inside words, digit-only words, leading/doubled underscores); per kind `cases` documents: well-formed messages of every part and 12 classes of malformed documents derived from them (as text, incl. duplicate keys); differential oracle: wrapper accepts iff exactly one part accepts, same value, same re-encoding, same handler reached, never panics, unknown-name errors list every supported name. Non-trivial = malformed document or a name with a letter/digit boundary or leading/doubled underscore.",
            &[A_ECHO, A_NATIVE, A_DOMAIN, "the oracle never predicts a wire name: it compares the wrapper with the parts (names observed by serialising each variant)", "programs do not forward serde(rename) attributes"]), "fz_wrapper", "bytes -> JSON document from a name dictionary + structural mutations (or raw bytes) -> wrapper accepts iff exactly one part accepts, same re-encoding, exactly one handler runs, no panic; documents with duplicate keys are tolerated (recorded finding)."),
        "C04" => with_fuzz(ctx, msg_family(ctx, true, "fam_msg_s2",
            "fam_msg programs in which names (and often argument lists) are shared between kinds of different parts; for every handler of kind K1 `cases` well-formed K1 documents are sent to the entry point of a different kind K2 (generated entry_points::<k2> and the cw_multi_test::Contract impl); invariant: decoding fails or every handler in the call log is annotated K2. Non-trivial = the K2 entry point accepted the document and ran a handler.",
            &[A_ECHO, A_NATIVE, A_DOMAIN, "reply entry points are covered by the reply family (C07)"]), "fz_entry", "bytes -> a document (raw text, or a name of any kind x a body of any handler) offered to every generated entry point of the fixture (instantiate, execute, query, sudo, migrate; names and argument lists shared between kinds): whenever an entry point accepts it exactly one handler ran, it is annotated with that entry point's kind and its wire name is the document's key; never panics."),
        "C05" => {
            let c = msg_family(ctx, true, "fam_msg_s2",
                "(c) for every part and kind of every generated program: <ep>_messages() strictly ascending and equal, as a set, to the top-level keys obtained by serialising one value of every variant. Non-trivial = list with >=2 names or a digit-bearing name.",
                &[A_NATIVE, A_DOMAIN]);
            let a = runtime_prop(ctx, "C05A",
                "(a) sylvia::utils::assert_no_intersection called at run time: exhaustively all 69 905 tuples of 0..=4 strictly sorted duplicate-free lists over subsets of {a, ab, b, ba} (prefixes occur), plus random tuples of 0..=6 lists of 0..8 arbitrary strings (empty, shared prefixes, multi-byte Unicode; sorted bytewise as the generated code does); oracle = naive pairwise intersection: panics iff some string occurs in two lists. Non-trivial = >=2 non-empty lists whose ranges interleave.",
                &["lists are sorted and duplicate-free: the precondition the generated code establishes (checked separately by part c)"]);
            let mut out = merge_outcomes(c, a);
            out.rule.push_str(" || (b, E3 compile units) fam_msg programs edited so that exactly two parts expose one shared wire name for one kind (same name, or the near-collision foo1 / foo_1; contract/interface and interface/interface; first / last position): cargo check must fail with `Message overlaps between interface and contract impl`; the unedited twin must compile.");
            crate::e3props::run_probes(ctx, "units_c05", crate::e3props::c05b_probes(ctx), None, &mut out);
            with_fuzz(ctx, out, "fz_merge", "bytes -> up to 6 sorted duplicate-free lists of arbitrary strings -> assert_no_intersection panics iff naive intersection is non-empty.")
        }
        "C11" => {
            let b = msg_family(ctx, true, "fam_msg_s2",
                "(b) fam_msg programs in which custom-typed contracts (msg and/or query) implement interfaces written for Empty (`: custom(msg, query)` flags) next to native ones; per exec/sudo handler `cases` tuples (args, env, response spec with 0..6 sub-messages of every CosmosMsg kind, attributes, events, data); through the contract-level wrapper and the generated entry points: the handler runs once in the caller's storage/env/sender/querier and the caller receives exactly the response the handler returned, or an error and no response iff the bridged response contains a custom-typed message. Non-trivial = bridged handler with >=2 sub-messages of distinct ids and a gas limit, or events + data.",
                &[A_ECHO, A_NATIVE, A_DOMAIN]);
            let a = runtime_prop(ctx, "C11A",
                "(a) IntoResponse::<MyMsg>::into_response over arbitrary Response<Empty>: 0..6 sub-messages of every CosmosMsg variant of the compiled feature set (bank x2, wasm x6, staking, distribution, stargate, ibc, gov, Custom(Empty)) with arbitrary id, payload, gas limit, reply_on; 0..5 attributes; 0..3 events; optional data; oracle: contains Custom => Err, otherwise Ok(r) whose JSON projection equals the input's. Non-trivial = >=2 sub-messages with distinct ids and a gas limit, or events + data.",
                &["feature set = mt, stargate, iterator, cosmwasm_1_4, staking (what the repository's workspace build unifies to)"]);
            merge_outcomes(b, a)
        }
        "C19" => {
            // (a) the families under a renamed dependency
            let quick = ctx.quick();
            let (nm, nr, cases) = if quick { (16usize, 16usize, 32u32) } else { (96, 96, 128) };
            let rule_a = "(a) fam_msg and fam_reply programs (every code-generation branch: all kinds, replies with partial coverage, interfaces with custom flags, generics, mt helpers, entry points) compiled in crates whose only path to the framework is `<alias> = { package = \"sylvia\" }`, the alias drawn from the seed (message corpus: one of sv2, sylvia_v1, fw3a -- letter/digit boundaries; reply corpus: one of svx, sv_fw, svX); they must compile and pass the C01, C02 and C07 oracles.";
            // aliases are legal dependency keys that are also identifiers as written
            let alias_m = ["sv2", "sylvia_v1", "fw3a"][(ctx.seed % 3) as usize];
            let alias_r = ["svx", "sv_fw", "svX"][((ctx.seed / 3) % 3) as usize];
            let msg_programs = replay_programs(ctx).unwrap_or_else(|| crate::fam_msg(ctx.seed ^ 0x19, nm, &msg_opts_s1()));
            let mut out = Outcome { rule: rule_a.to_string(), ..Default::default() };
            for prop in ["C01", "C02"] {
                let o = e2_run(ctx, E2Spec { exe_prop: Some(prop), family: "alias_msg", programs: msg_programs.clone(), cases, rule: "", assumptions: vec![A_NATIVE.into(), A_DOMAIN.into()], alias: Some(alias_m) });
                let r = out.rule.clone();
                out = merge_outcomes(out, o);
                out.rule = r;
            }
            if ctx.replay.is_none() {
                let reply_programs = crate::fam_reply(ctx.seed ^ 0x19, nr, &GenOpts::default(), true);
                let o = e2_run(ctx, E2Spec { exe_prop: Some("C07"), family: "alias_reply", programs: reply_programs, cases: cases * 3, rule: "", assumptions: vec![A_REPLY.into()], alias: Some(alias_r) });
                let r = out.rule.clone();
                out = merge_outcomes(out, o);
                out.rule = r;
            }
            out.rule.push_str(" || (b, E3 compile units) a generic contract using its parameter in instantiate/exec/query/sudo/migrate arguments, with partially covered reply handlers, an interface, entry points and mt helpers, once for every single letter A..Z and for each of Msg, Query, Param, Data, Item, Value, Key, Resp, Custom, State, Config, Payload, Event, Exec, Sudo as parameter name, plus two-parameter units drawn from the seed: must compile. Non-trivial = every unit (all exercise the reply pass-through arms).");
            crate::e3props::run_probes(ctx, "units_c19", crate::e3props::c19b_probes(ctx), None, &mut out);
            out
        }
        "C20" => with_fuzz(ctx, runtime_prop(ctx, "C20",
            "arbitrary address strings (plain, bech32-like, quotes, control characters, Unicode) x Remote<T> for T in {a struct, (), unsized str, dyn Trait<Error=.., Param=..> with two different bindings} x owned / borrowed: to_json_string parsed == {\"addr\": s} with exactly one member; identical bytes and identical schema_for! across all T; schema titled Remote with the single required property addr; from_json of the model's own text gives a handle whose as_ref() is the address; update_admin / clear_admin address the handle's contract. Non-trivial = every distinct address (classes: needs JSON escaping / plain).",
            &["type parameters are local stand-ins (the encoding must not depend on them)"]), "fz_remote", "bytes -> address string -> encode / literal shape / decode across three parameterisations."),
        "C07" => reply_family(ctx, true, "fam_reply",
            "fam_reply programs; `cases` replies per program: every declared id and ids belonging to no handler, Ok(SubMsgResponse{0..3 events, data by class, 0..2 msg responses}) / Err(text), any gas_used, payload built by the generated sub-message builder or garbage; through sv::dispatch_reply and the generated reply entry point; reference model computed from the program model: covered outcome => exactly the declared method runs once with the documented arguments and context (gas, env, storage; events/msg responses for success methods), uncovered success => events+data passed through, uncovered failure => that error as the contract's error, unknown id / undecodable payload => error and no handler. Non-trivial = uncovered outcome or an `always` handler.",
            &[A_ECHO, A_NATIVE, A_REPLY, "valid payload bytes are obtained from the generated builder (its agreement with dispatch is C08)"]),
        "C08" => {
            let mut out = reply_family(ctx, true, "fam_reply",
            "fam_reply programs; ids of distinct handler names pairwise distinct; per handler name `cases` tuples (receiver in {SubMsg with arbitrary id/gas limit/reply_on/payload, WasmMsg, CosmosMsg of every kind}, payload values): builder result compared field-wise with the model (id constant, reply_on from the set of covered outcomes, wrapped message unchanged, gas limit kept / None, raw payload byte for byte) and then dispatched back through dispatch_reply where the handler must receive equal payload values. Non-trivial = >=2 typed payload values or a raw payload with non-UTF-8 bytes.",
            &[A_ECHO, A_NATIVE, A_REPLY]);
            out.rule.push_str(" || (E3 probe units) payload parameter names coinciding with locals of the generated dispatcher x {success, error, always}; a payload typed by a contract type parameter; handler names h1 / h_1 (distinct names must get distinct ids): each program must compile.");
            crate::e3props::run_probes(ctx, "units_c08", crate::e3props::c08_probes(), None, &mut out);
            out
        }
        "C09" => with_fuzz(ctx, reply_family(ctx, true, "fam_reply",
            "fam_reply programs; for every success handler `cases` replies whose data is drawn from the classes absent / well-formed / envelope-malformed (length overrun, wrong wire type, oversized varint, truncated) / JSON-malformed (wrong type, truncated, trailing bytes) / envelope without inner data / envelope of the other kind / random bytes; expected outcome from the data-mode table in the rustdoc of `contract`, using an independent protobuf writer, cw_utils' parsers as the envelope reference and the data type's own serde impl; any failure must be Err with an empty call log. Non-trivial = handler with a data marker (distinct by row, data bytes).",
            &[A_ECHO, A_NATIVE, A_REPLY, "the cell `opt` marker + well-formed envelope without inner data is not specified by the documentation: either None delivered or a missing-data error is accepted"]), "fz_replydata", "bytes -> SubMsgResponse.data (absent / raw / wrapped in a well-formed execute or instantiate envelope) -> each of the six data-mode handlers must behave as the documented table says (reference: cw_utils parsers + serde), failures without invoking the handler."),
        "C10" => msg_family(ctx, true, "fam_msg_s2",
            "for every exec / query method of the contract and of each interface (handle typed by the concrete contract and by `dyn Interface<..>`): `cases` tuples (argument values, address, funds set/unset); Remote::executor()[.with_funds]..build() must equal WasmMsg::Execute{addr, funds, body} and the body, fed to the target's generated execute entry point, must run that same method with equal arguments (C02 call-log oracle); the query helper must issue exactly one WasmQuery::Smart to the handle's address whose body the query entry point routes to the same method, and return the decoded handler response; InstantiateBuilder with random label/admin/funds/salt options is compared field by field and its body fed to the instantiate entry point. Non-trivial = method with arguments and non-empty funds, an interface-typed (`dyn`) handle, or >=2 builder options.",
            &[A_ECHO, A_SERDE, A_NATIVE, A_DOMAIN, "Remote::update_admin / clear_admin are covered by the C20 runtime check"]),
        "C06" => {
            let mut out = Outcome { rule: "(a) exhaustive over all 1024 configurations (2^6 override subsets x migrate declared? x reply declared? x replies feature x generic?) crossed with random fam_msg base programs: the set of fn items in the expanded `pub mod entry_points` equals {instantiate, execute, query, sudo} + declared migrate/reply minus the overridden kinds, each once, and each entry point takes the message type of its own kind. Non-trivial = configuration with >=1 override or a migrate/reply handler.".into(), ..Default::default() };
            out.assumptions = vec!["token-level check on in-process expansions (engine E1); forwarding of calls through emitted entry points is exercised by C02/C04/C07/C10 on compiled programs".into(), A_DOMAIN.into()];
            match crate::e1::expander_exe() {
                Ok(exe) => crate::e1props::c06a(ctx, &exe, &mut out),
                Err(e) => out.inconclusive = Some(e),
            }
            let b = msg_family(ctx, true, "fam_msg_s2",
                "(b) compiled fam_msg programs, 25% with 1..2 overridden kinds and 25% with legacy reply handlers: for every handler of a non-overridden kind, `cases` tuples (args, env, info, outcome) sent as model JSON to the generated entry point and to the generated cw_multi_test::Contract impl must satisfy the C02 call-log oracle (contract built with new(), same deps/env/info, handler's outcome with the contract's error type); overridden kinds have no generated entry point and are routed to the user's function by the multitest impl; legacy reply: entry point and multitest impl hand the Reply to the same single reply handler. Non-trivial = program with overrides, a migrate handler, or the failing outcome.",
                &[A_ECHO, A_SERDE, A_NATIVE, A_DOMAIN]);
            merge_outcomes(out, b)
        }
        "C13" => {
            let mut out = Outcome { rule: "generated impl blocks, traits and entry_points inputs with rich surface syntax (doc comments, cfg/allow/must_use/inline/deprecated and look-alike attributes such as #[other::msg(exec)] / #[svx::error(E)] on items and methods, all visibilities, generics + where clauses, helper methods without message attributes incl. attributes on their parameters, associated consts, nested items / closures / attribute-like text in bodies, attributes on handler parameters and receivers) rendered twice from one structure: as written and with framework attributes and handler-parameter attributes left out (never through a fold); plus every annotated item of /repo/sylvia/tests and /repo/examples with an independently written attribute filter. Oracle: first item of the macro output == expectation (token-normalised by one syn parse->print); same input expanded twice in one process and once in a second process gives identical strings. Non-trivial = item with a helper method, a foreign attribute, a nested item, or a real source item.".into(), ..Default::default() };
            out.assumptions = vec!["token-level comparison: whitespace and comment formatting are not part of the comparison (doc comments are, as #[doc] attributes)".into(), "surface items are not type-checked (engine E1 only expands)".into()];
            match crate::e1::expander_exe() {
                Ok(exe) => crate::c13::run(ctx, &exe, &mut out),
                Err(e) => out.inconclusive = Some(e),
            }
            out
        }
        "C14" => {
            let mut out = Outcome { rule: "(a) metamorphic, engine E1: a valid program P (fam_msg or fam_reply incl. error-declared-before-success tables, random override declarations) and a twin P' with contract methods, interface declarations, interface methods, sv::msg_attr and sv::override_entry_point declarations permuted; both must be accepted, and the canonical forms of the contract, interface and entry_points expansions must be equal (canonical = enum variants, impl/trait items, match arms, array elements, module items and the wrapper's deserialisation attempts sorted; *_REPLY_ID values dropped). Non-trivial = permutation is not the identity and the program has >=2 interfaces or a handler name served by two methods.".into(), ..Default::default() };
            out.assumptions = vec!["token-level comparison of expansions; the behaviour of generated code for every single order is covered by C01-C09 on compiled programs".into(), A_DOMAIN.into(), A_REPLY.into()];
            match crate::e1::expander_exe() {
                Ok(exe) => crate::c14::run(ctx, &exe, &mut out),
                Err(e) => out.inconclusive = Some(e),
            }
            out.rule.push_str(" || (b, E3 compile units, metamorphic) fam_msg programs in which two parts share one wire name (and some disjoint twins), each compiled in up to four declaration orders (as declared, sv::messages / interface order reversed, methods of every part reversed, both): all orders must have the same accept / reject status under cargo check (the overlap assertion is evaluated by rustc, not by the macro).");
            crate::e3props::run_groups(ctx, "units_c14", crate::e3props::c14b_groups(ctx), &mut out);
            out
        }
        "C18" => {
            let mut out = Outcome { rule: format!("(a) engine E1: catalogue of {} single rule-breaking edits, each applied to random valid base programs (the unedited base must be accepted, the edited program must produce an error diagnostic; a macro panic counts as a violation); plus exhaustively all reply tables of <=3 methods over 2 handler names x 3 outcomes in every declaration order: rejected iff two methods claim the same (name, outcome) with always = both. Non-trivial = every edited program (distinct by rule x base program) and every table.", crate::c18::RULES.len()), ..Default::default() };
            out.assumptions = vec!["engine E1 observes accepted / rejected / panic, not the diagnostic text or span (rustc-level wording and location are out of reach of in-process expansion)".into(), "expansion server built with sylvia-derive features mt,cosmwasm_1_2 (what sylvia's `mt` feature enables)".into()];
            match crate::e1::expander_exe() {
                Ok(exe) => crate::c18::run(ctx, &exe, &mut out),
                Err(e) => out.inconclusive = Some(e),
            }
            out.rule.push_str(" || (b, E3 compile units) one unit per catalogue entry (base program re-drawn per seed): cargo check must fail with an error containing the documented message fragment, located at or after the first line of the offending item.");
            crate::e3props::run_probes(ctx, "units_c18", crate::e3props::c18b_probes(ctx), None, &mut out);
            out
        }
        "C15" => {
            let mut out = e1_tape(ctx, "generics", if ctx.quick() { 2000 } else { 40000 }, crate::e1props::c15a_case,
            "(a) generic fam_msg programs (1..3 type parameters; interfaces with 0..2 associated types); parameters assigned to handler arguments directly, nested (Vec<Option<T>>, (T,u32), Box<T>..), only in a query response, or nowhere; optional bound relating two parameters; oracle from the model: for every generated message type the parameter list equals (as a duplicate-free set) the parameters used by the kind's handlers, no bound on its inherent impl mentions another parameter, struct messages carry exactly the surviving predicates, ContractApi aliases name the same lists; same for interface message types over associated types. Non-trivial = a parameter used only nested / only in a response / unused by some kind, or a two-parameter bound.",
            &["token-level check on in-process expansions (engine E1); compiled generic programs are exercised by C01/C02 (fam_msg has generic programs)", A_DOMAIN, "parameter order inside a generated type is not judged (the statement says `each once`)"]);
            out.rule.push_str(" || (E3 probe units) two-parameter contracts whose where clause relates the parameters (`T0: B + Rel<T1>` and `T0: B, T0: Rel<T1>`) plus a control with single-parameter bounds: must compile.");
            crate::e3props::run_probes(ctx, "units_c15", crate::e3props::c15_probes(), None, &mut out);
            out
        }
        "C17" => {
            let a = e1_tape(ctx, "placement", if ctx.quick() { 2000 } else { 40000 }, crate::e1props::c17a_case,
            "(a) fam_msg programs with inert marker attributes #[doc = \"vp-N\"] forwarded by sv::msg_attr(kind, ..) (several kinds per program), sv::attr(..) (per handler) and written on handler arguments; oracle: in the parsed expansions of all macros of the program every marker occurs exactly once, on the generated type of that kind / that handler's variant / that argument's field, and nowhere else (proxies, constructors, wrappers, re-emitted input included). Non-trivial = program with >=2 markers on >=2 different kinds of items.",
            &["token-level check on in-process expansions (engine E1)", A_DOMAIN]);
            let b = msg_family_opts(ctx, GenOpts { s2_names: false, aliases: true, overrides: false, ..GenOpts::default() }, "fam_msg_alias",
                "(b) compiled fam_msg programs with #[serde(default)] on 12% of the eligible arguments and `sv::attr(serde(alias = ..))` on 40% of the enum handlers: per handler `cases` documents with one field removed -- accepted by the part iff that argument carries the forwarded default (or is an Option), and then the handler receives the type's default value; every alias is accepted by its own variant (and dispatches to that handler) and by no other message type of the program. Non-trivial = dropped field with a forwarded default, or an alias probe.",
                &[A_ECHO, A_SERDE, A_NATIVE, A_DOMAIN, "aliases are judged on the part message types only (the routing lists of the contract-level wrapper do not know forwarded aliases; C03 therefore runs on programs without them)"]);
            merge_outcomes(a, b)
        }
        "C12" => msg_family(ctx, false, "fam_msg_s1",
            "fam_msg programs (S1 names, so the raw JSON is produced by the model encoder alone); per program `cases`*5/8 histories of 1..12 (thorough ..30) operations over 3 senders with initial balances: instantiate (label / admin / funds / salt options, each present or not), exec with funds, query, sudo, migrate to a freshly stored code, and a switch making a contract's handlers fail; chain A is driven through the generated proxies (CodeId::store_code, InstantiateProxy options, ExecProxy::with_funds, query / sudo / migrate proxies), chain B is a plain cw-multi-test app holding ContractWrapper over the generated entry points and receives WasmMsg::{Instantiate,Instantiate2,Execute,Migrate} / WasmQuery::Smart / SudoMsg::Wasm with model-encoded JSON bodies; after every step results (addresses, events, data, query values) and storage dumps, contract info (code id, creator, admin, label) and all balances must agree; a failing handler must surface on the proxy side as the contract's error type equal to the error the handler constructed. Non-trivial = history with an instantiate carrying >=2 options, a failing handler and an exec with funds after it.",
            &[A_ECHO, A_SERDE, A_NATIVE, A_DOMAIN, "failures that do not come from a handler (insufficient funds, not the admin) are compared as `both sides fail and states stay equal`; a proxy that panics there is counted as failing (the property speaks about handler errors)", "override_entry_point programs are exercised by C06; reply programs by C07-C09"]),
        "C16" => {
            let mut out = msg_family(ctx, true, "fam_msg_s2",
            "for every generated program and every part: QueryResponses::response_schemas() is Ok, its key set equals the wire names of the part's queries (plus at most one unsendable placeholder), each entry equals schema_for!(declared response type) computed from svrt's own types; the contract-level table equals the union of the parts; schema_for!(Contract{Exec,Query,Sudo}Msg) is an anyOf whose members resolve to the parts' schemas. Non-trivial = a part with >=2 distinct response types or a part-spanning union.",
            &[A_NATIVE, A_DOMAIN, "response types: three plain structs, generic parameter, associated type, explicit resp= behind a result alias (also for a generic parameter), explicit resp= whose published type differs from the (wire-compatible) type in the signature"]);
            out.rule.push_str(" || (E3 probe units) an interface query whose response is an associated type, inferred from the signature and named explicitly with resp=: must compile.");
            crate::e3props::run_probes(ctx, "units_c16", crate::e3props::c16_probes(), None, &mut out);
            out
        }
        other => {
            eprintln!("unknown property {other}");
            return 2;
        }
    };
    finish(ctx, out)
}
