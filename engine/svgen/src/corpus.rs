//! Generated corpus crates: write sources, build with cargo, run the binary.

use crate::render::{render_module, RenderOpts};
use serde_json::Value;
use std::path::{Path, PathBuf};
use std::process::Command;
use svmodel::Program;

pub const VERIF: &str = "/verif";
pub const REPO: &str = "/repo";
pub const SYLVIA_FEATURES: &str = r#"["mt", "stargate", "iterator", "cosmwasm_1_4"]"#;

pub struct CorpusSpec<'a> {
    pub name: &'a str,
    pub programs: &'a [Program],
    /// dependency alias for sylvia (None = `sylvia`)
    pub alias: Option<&'a str>,
    /// cargo features to enable on the corpus crate (property-specific compile-time probes)
    pub extra_files: Vec<(String, String)>,
    /// library indices left out of the binary (candidates that do not compile, see shrink.rs)
    pub bin_skip: Vec<usize>,
}

pub fn work_dir(name: &str) -> PathBuf {
    Path::new(VERIF).join("work").join(name)
}

fn write_if_changed(path: &Path, content: &str) {
    if let Ok(old) = std::fs::read_to_string(path) {
        if old == content {
            return;
        }
    }
    if let Some(parent) = path.parent() {
        std::fs::create_dir_all(parent).unwrap();
    }
    std::fs::write(path, content).unwrap();
}

pub fn write_corpus(spec: &CorpusSpec, nlibs: usize) -> PathBuf {
    let dir = work_dir(spec.name);
    std::fs::create_dir_all(&dir).unwrap();
    let sv = spec.alias.unwrap_or("sylvia");
    let dep = if let Some(a) = spec.alias {
        format!("{a} = {{ package = \"sylvia\", path = \"{REPO}/sylvia\", features = {SYLVIA_FEATURES} }}")
    } else {
        format!("sylvia = {{ path = \"{REPO}/sylvia\", features = {SYLVIA_FEATURES} }}")
    };
    let nlibs = nlibs.max(1).min(spec.programs.len().max(1));
    let mut members = vec!["\"corp\"".to_string()];
    // crate names are unique per corpus: workspaces share one target directory and cargo
    // hashes workspace members by name/version/relative path only
    let lib_name = |i: usize| format!("{}_l{i}", spec.name);
    for i in 0..nlibs {
        members.push(format!("\"lib{i}\""));
    }
    let root = format!(
        "[workspace]\nmembers = [{}]\nresolver = \"2\"\n\n[profile.dev]\ndebug = 0\nopt-level = 0\nincremental = false\n\n[profile.dev.package.\"*\"]\nopt-level = 2\n\n[profile.dev.package.svrt]\nopt-level = 2\n[profile.dev.package.svmodel]\nopt-level = 2\n",
        members.join(", ")
    );
    write_if_changed(&dir.join("Cargo.toml"), &root);
    write_if_changed(&dir.join(".cargo/config.toml"), "[net]\noffline = true\n");
    let lock = std::fs::read_to_string(Path::new(VERIF).join("engine/Cargo.lock")).unwrap();
    if !dir.join("Cargo.lock").exists() {
        std::fs::write(dir.join("Cargo.lock"), lock).unwrap();
    }
    let opts = RenderOpts { sv: sv.to_string(), glue: true };
    // libs
    let mut lib_progs: Vec<Vec<&Program>> = vec![vec![]; nlibs];
    for (i, p) in spec.programs.iter().enumerate() {
        lib_progs[i % nlibs].push(p);
    }
    // remove stale sources
    for i in 0..128 {
        let d = dir.join(format!("lib{i}"));
        if i >= nlibs && d.exists() {
            let _ = std::fs::remove_dir_all(&d);
        }
    }
    for (i, progs) in lib_progs.iter().enumerate() {
        let ldir = dir.join(format!("lib{i}"));
        let toml = format!(
            "[package]\nname = \"{}\"\nversion = \"0.1.0\"\nedition = \"2021\"\n\n[dependencies]\n{dep}\nsvrt = {{ path = \"{VERIF}/engine/svrt\" }}\n",
            lib_name(i)
        );
        write_if_changed(&ldir.join("Cargo.toml"), &toml);
        let mut librs = String::from("#![allow(unused_imports, dead_code)]\n");
        let src = ldir.join("src");
        std::fs::create_dir_all(&src).unwrap();
        let mut keep = vec!["lib.rs".to_string()];
        for p in progs {
            librs.push_str(&format!("pub mod {};\n", p.id));
            write_if_changed(&src.join(format!("{}.rs", p.id)), &render_module(p, &opts));
            keep.push(format!("{}.rs", p.id));
        }
        librs.push_str("pub fn programs() -> Vec<fn() -> svrt::Prog> {\n    vec![\n");
        for p in progs {
            librs.push_str(&format!("        {}::gl::program,\n", p.id));
        }
        librs.push_str("    ]\n}\n");
        write_if_changed(&src.join("lib.rs"), &librs);
        for e in std::fs::read_dir(&src).unwrap().flatten() {
            let n = e.file_name().to_string_lossy().to_string();
            if !keep.contains(&n) {
                let _ = std::fs::remove_file(e.path());
            }
        }
    }
    // bin
    let cdir = dir.join("corp");
    let mut deps = format!("svrt = {{ path = \"{VERIF}/engine/svrt\" }}\n");
    for i in (0..nlibs).filter(|i| !spec.bin_skip.contains(i)) {
        deps.push_str(&format!("{} = {{ path = \"../lib{i}\" }}\n", lib_name(i)));
    }
    write_if_changed(
        &cdir.join("Cargo.toml"),
        &format!("[package]\nname = \"corp_{}\"\nversion = \"0.1.0\"\nedition = \"2021\"\n\n[dependencies]\n{deps}", spec.name),
    );
    let mut main = String::from("fn main() {\n    let mut v: Vec<fn() -> svrt::Prog> = vec![];\n");
    for i in (0..nlibs).filter(|i| !spec.bin_skip.contains(i)) {
        main.push_str(&format!("    v.extend({}::programs());\n", lib_name(i)));
    }
    main.push_str("    svrt::props::run_main(v);\n}\n");
    write_if_changed(&cdir.join("src/main.rs"), &main);
    for (name, content) in &spec.extra_files {
        write_if_changed(&dir.join(name), content);
    }
    dir
}

#[derive(Debug, Clone)]
pub struct Diag {
    pub level: String,
    pub message: String,
    pub file: String,
    pub line: u64,
    pub rendered: String,
}

pub struct BuildOut {
    pub ok: bool,
    pub exe: Option<PathBuf>,
    pub errors: Vec<Diag>,
    pub raw_tail: String,
}

pub fn target_dir(kind: &str) -> PathBuf {
    Path::new(VERIF).join("target").join(kind)
}

pub fn cargo_build(dir: &Path, extra: &[&str], target: &str) -> BuildOut {
    let mut cmd = Command::new("cargo");
    cmd.current_dir(dir)
        .arg("build")
        .arg("--offline")
        .arg("--message-format=json")
        .arg("--target-dir")
        .arg(target_dir(target))
        .args(extra)
        .env("CARGO_NET_OFFLINE", "true")
        .env("RUSTFLAGS", "-Awarnings");
    let out = cmd.output().expect("cargo runs");
    let stdout = String::from_utf8_lossy(&out.stdout).to_string();
    let mut exe = None;
    let mut errors = vec![];
    for line in stdout.lines() {
        let Ok(v) = serde_json::from_str::<Value>(line) else { continue };
        match v.get("reason").and_then(|r| r.as_str()) {
            Some("compiler-artifact") => {
                if let Some(e) = v.get("executable").and_then(|e| e.as_str()) {
                    exe = Some(PathBuf::from(e));
                }
            }
            Some("compiler-message") => {
                let m = &v["message"];
                if m["level"].as_str() == Some("error") {
                    let span = m["spans"].as_array().and_then(|s| s.iter().find(|s| s["is_primary"].as_bool() == Some(true)).or(s.first())).cloned().unwrap_or(Value::Null);
                    errors.push(Diag {
                        level: "error".into(),
                        message: m["message"].as_str().unwrap_or("").to_string(),
                        file: span["file_name"].as_str().unwrap_or("").to_string(),
                        line: span["line_start"].as_u64().unwrap_or(0),
                        rendered: m["rendered"].as_str().unwrap_or("").to_string(),
                    });
                }
            }
            _ => {}
        }
    }
    let stderr = String::from_utf8_lossy(&out.stderr).to_string();
    let tail: String = stderr.lines().rev().take(30).collect::<Vec<_>>().into_iter().rev().collect::<Vec<_>>().join("\n");
    BuildOut { ok: out.status.success(), exe, errors, raw_tail: tail }
}
