//! Engine E1: properties evaluated on in-process macro expansions.

use crate::check::{Ctx, Outcome};
use crate::expander::{build_expander, Expander, Expansion};
use crate::render;
use proptest::strategy::{BoxedStrategy, Strategy};
use proptest::test_runner::{Config, RngAlgorithm, TestCaseError, TestError, TestRng, TestRunner};
use serde_json::{json, Value};
use std::collections::{BTreeMap, BTreeSet};
use std::path::PathBuf;
use std::sync::Mutex;
use svmodel::Program;

#[derive(Debug, Clone)]
pub enum Bad {
    Violation { key: String, what: String, detail: Value },
    Harness(String),
}

pub fn viol(key: impl Into<String>, what: impl Into<String>, detail: Value) -> Bad {
    Bad::Violation { key: key.into(), what: what.into(), detail }
}

#[derive(Default)]
pub struct Stats {
    pub evaluations: u64,
    pub expansions: u64,
    pub nontrivial: BTreeSet<u64>,
    pub classes: BTreeMap<String, u64>,
    pub samples: Vec<Value>,
    frozen: bool,
}

impl Stats {
    pub fn class(&mut self, c: &str) {
        if !self.frozen {
            *self.classes.entry(c.to_string()).or_insert(0) += 1;
        }
    }
    pub fn nontrivial<T: std::hash::Hash>(&mut self, t: &T) {
        if !self.frozen {
            use std::hash::Hasher;
            let mut h = std::collections::hash_map::DefaultHasher::new();
            t.hash(&mut h);
            self.nontrivial.insert(h.finish());
        }
    }
    pub fn sample(&mut self, f: impl FnOnce() -> Value) {
        if !self.frozen && self.samples.len() < 5 {
            let v = f();
            self.samples.push(v);
        }
    }
    fn merge(&mut self, o: Stats) {
        self.evaluations += o.evaluations;
        self.expansions += o.expansions;
        self.nontrivial.extend(o.nontrivial);
        for (k, v) in o.classes {
            *self.classes.entry(k).or_insert(0) += v;
        }
        for s in o.samples {
            if self.samples.len() < 5 {
                self.samples.push(s);
            }
        }
    }
}

pub struct ProgExp {
    pub ifaces: Vec<Expansion>,
    pub contract: Expansion,
    pub entry: Option<Expansion>,
}

/// Expand all macro invocations of a program.
pub fn expand_program(ex: &mut Expander, p: &Program) -> Result<ProgExp, Bad> {
    let mut ifaces = vec![];
    for i in &p.interfaces {
        ifaces.push(ex.expand("interface", "", &render::render_interface_item(p, i)).map_err(Bad::Harness)?);
    }
    let item = render::render_contract_item(p);
    let contract = ex.expand("contract", "", &item).map_err(Bad::Harness)?;
    let entry = if p.contract.entry_points {
        Some(ex.expand("entry_points", &render::entry_points_attr(p), &format!("#[contract]\n{item}")).map_err(Bad::Harness)?)
    } else {
        None
    };
    Ok(ProgExp { ifaces, contract, entry })
}

pub fn clean_text<'a>(e: &'a Expansion, what: &str, p: &Program) -> Result<&'a str, Bad> {
    match e {
        Expansion::Clean(s) if e.accepted() => Ok(s),
        other => Err(viol(
            format!("valid-rejected:{what}"),
            "a valid-by-construction program is not accepted by the macro",
            json!({"macro": what, "outcome": format!("{:?}", short(other)), "program": p}),
        )),
    }
}

pub fn short(e: &Expansion) -> String {
    match e {
        Expansion::Clean(s) => format!("Clean({} chars)", s.len()),
        Expansion::Dirty => "Dirty".into(),
        Expansion::Panic(m) => format!("Panic({m})"),
        Expansion::BadRequest(m) => format!("BadRequest({m})"),
    }
}

pub fn seed_of<T: std::hash::Hash>(t: &T) -> u64 {
    use std::hash::Hasher;
    let mut h = std::collections::hash_map::DefaultHasher::new();
    t.hash(&mut h);
    h.finish()
}

pub struct E1Failure {
    pub key: String,
    pub what: String,
    pub case: Value,
    pub detail: Value,
}

pub struct E1Result {
    pub stats: Stats,
    pub failures: Vec<E1Failure>,
    pub harness: Vec<String>,
}

/// A case that can be stored in / restored from a replay file.
pub trait E1Case: std::fmt::Debug + Clone + Send + 'static {
    fn to_json(&self) -> Value;
    fn from_json(v: &Value) -> Option<Self>;
}

impl E1Case for Vec<u32> {
    fn to_json(&self) -> Value {
        json!(self)
    }
    fn from_json(v: &Value) -> Option<Self> {
        serde_json::from_value(v.clone()).ok()
    }
}

pub fn expander_exe() -> Result<PathBuf, String> {
    build_expander()
}

/// Run `cases` generated cases over `threads` expansion servers.  Known-finding keys are
/// tolerated (counted, recorded once) so that the search continues behind them.
pub fn run_generated<T: E1Case>(
    ctx: &Ctx,
    exe: &PathBuf,
    salt: &str,
    mk_strategy: impl Fn() -> BoxedStrategy<T> + Sync,
    cases: u32,
    threads: usize,
    f: impl Fn(&mut Expander, &T, &mut Stats) -> Result<(), Bad> + Sync,
) -> E1Result {
    let known = ctx.known_keys();
    let merged = Mutex::new(E1Result { stats: Stats::default(), failures: vec![], harness: vec![] });
    if let Some(path) = &ctx.replay {
        let v: Value = serde_json::from_str(&std::fs::read_to_string(path).unwrap_or_default()).unwrap_or(Value::Null);
        if v["salt"].as_str() != Some(salt) {
            return merged.into_inner().unwrap();
        }
        let mut res = E1Result { stats: Stats::default(), failures: vec![], harness: vec![] };
        let Some(case) = T::from_json(&v["case"]) else {
            res.harness.push("replay case does not decode".into());
            return res;
        };
        match Expander::spawn(exe) {
            Ok(mut ex) => {
                res.stats.evaluations = 1;
                match f(&mut ex, &case, &mut res.stats) {
                    Ok(()) => {}
                    Err(Bad::Violation { key, what, detail }) => res.failures.push(E1Failure { key, what, case: case.to_json(), detail }),
                    Err(Bad::Harness(h)) => res.harness.push(h),
                }
            }
            Err(e) => res.harness.push(e),
        }
        return res;
    }
    let per = (cases as usize).div_ceil(threads.max(1)) as u32;
    std::thread::scope(|s| {
        for th in 0..threads.max(1) {
            let merged = &merged;
            let f = &f;
            let mk_strategy = &mk_strategy;
            let known = &known;
            s.spawn(move || {
                let mut ex = match Expander::spawn(exe) {
                    Ok(e) => e,
                    Err(e) => {
                        merged.lock().unwrap().harness.push(e);
                        return;
                    }
                };
                let seed = seed_of(&(ctx.seed, &ctx.prop, salt, th));
                let mut seed_bytes = [0u8; 32];
                seed_bytes[..8].copy_from_slice(&seed.to_le_bytes());
                seed_bytes[8..16].copy_from_slice(&seed.rotate_left(29).to_le_bytes());
                let config = Config { cases: per, failure_persistence: None, max_shrink_iters: 600, ..Config::default() };
                let mut runner = TestRunner::new_with_rng(config, TestRng::from_seed(RngAlgorithm::ChaCha, &seed_bytes));
                let stats = std::cell::RefCell::new(Stats::default());
                let known_hits: std::cell::RefCell<Vec<E1Failure>> = std::cell::RefCell::new(vec![]);
                let last: std::cell::RefCell<Option<Bad>> = std::cell::RefCell::new(None);
                let exc = std::cell::RefCell::new(&mut ex);
                let strat = mk_strategy();
                let result = runner.run(&strat, |case| {
                    let mut st = stats.borrow_mut();
                    if !st.frozen {
                        st.evaluations += 1;
                    }
                    let mut exb = exc.borrow_mut();
                    match f(&mut exb, &case, &mut st) {
                        Ok(()) => Ok(()),
                        Err(Bad::Violation { key, what, detail }) if !st.frozen && known.contains(&key) => {
                            st.class("excluded_known");
                            let mut kh = known_hits.borrow_mut();
                            if !kh.iter().any(|k| k.key == key) {
                                kh.push(E1Failure { key, what, case: case.to_json(), detail });
                            }
                            Ok(())
                        }
                        Err(bad) => {
                            // while shrinking, a candidate only counts as failing if it fails in
                            // the same family (key up to the first ':') and not under the key of a
                            // recorded finding: a violation must not shrink into a known finding
                            let fam = |b: &Bad| match b {
                                Bad::Violation { key, .. } => key.split(':').next().unwrap_or("").to_string(),
                                Bad::Harness(_) => "<harness>".to_string(),
                            };
                            if st.frozen {
                                let is_known = matches!(&bad, Bad::Violation { key, .. } if known.contains(key));
                                let same = last.borrow().as_ref().map(|f0| fam(f0) == fam(&bad)).unwrap_or(true);
                                if is_known || !same {
                                    return Ok(());
                                }
                            }
                            st.frozen = true;
                            let msg = format!("{bad:?}");
                            *last.borrow_mut() = Some(bad);
                            Err(TestCaseError::fail(msg.chars().take(300).collect::<String>()))
                        }
                    }
                });
                let mut st = stats.into_inner();
                let mut failures = known_hits.into_inner();
                let mut harness = vec![];
                match result {
                    Ok(()) => {}
                    Err(TestError::Fail(_, shrunk)) => {
                        st.frozen = true;
                        let mut exb = exc.borrow_mut();
                        let bad = match f(&mut exb, &shrunk, &mut st) {
                            Err(b) => b,
                            Ok(()) => last.borrow().clone().unwrap_or(Bad::Harness("shrunk case passes".into())),
                        };
                        match bad {
                            Bad::Violation { key, what, detail } => failures.push(E1Failure { key, what, case: shrunk.to_json(), detail }),
                            Bad::Harness(h) => harness.push(format!("{h} case={}", shrunk.to_json())),
                        }
                    }
                    Err(TestError::Abort(r)) => harness.push(format!("proptest aborted: {r}")),
                }
                drop(exc);
                st.expansions = ex.requests;
                let mut m = merged.lock().unwrap();
                m.stats.merge(st);
                m.failures.extend(failures);
                m.harness.extend(harness);
            });
        }
    });
    merged.into_inner().unwrap()
}

/// Turn an E1 result into a check outcome (replay files, known findings).
pub fn to_outcome(ctx: &Ctx, salt: &str, res: E1Result, out: &mut Outcome) {
    out.evaluations += res.stats.evaluations;
    out.nontrivial += res.stats.nontrivial.len() as u64;
    for s in res.stats.samples {
        if out.samples.len() < 6 {
            out.samples.push(s);
        }
    }
    let mut classes: BTreeMap<String, u64> = serde_json::from_value(out.classes.clone()).unwrap_or_default();
    for (k, v) in res.stats.classes {
        *classes.entry(k).or_insert(0) += v;
    }
    out.classes = json!(classes);
    let exp = out.extra.get("expansions").and_then(|v| v.as_u64()).unwrap_or(0) + res.stats.expansions;
    out.extra.insert("expansions".into(), json!(exp));
    if !res.harness.is_empty() && out.inconclusive.is_none() {
        out.inconclusive = Some(format!("harness errors: {}", res.harness.iter().take(3).cloned().collect::<Vec<_>>().join(" | ")));
    }
    let mut seen = BTreeSet::new();
    for f in res.failures {
        if let Some(k) = ctx.known.iter().find(|k| k.property == ctx.prop && k.key == f.key) {
            let line = format!("{} [{}]", k.desc, f.key);
            if !out.known_hits.contains(&line) {
                out.known_hits.push(line);
            }
            continue;
        }
        if !seen.insert(f.key.clone()) {
            continue;
        }
        let v = json!({"property": ctx.prop, "engine": "E1", "salt": salt, "key": f.key, "what": f.what, "case": f.case, "detail": f.detail, "seed": ctx.seed, "tier": ctx.tier});
        let path = ctx.save_replay(&v);
        out.violations.push((f.key, f.what, path));
    }
}

pub fn tape_strategy(len: usize) -> BoxedStrategy<Vec<u32>> {
    svmodel::tape::tape_strategy(len).boxed()
}
