//! E1 properties: C06a (entry-point set), C15a (generic parameters), C17a (attribute
//! placement).  C13, C14a and C18a live in their own modules.

use crate::check::{Ctx, Outcome};
use crate::e1::*;
use crate::expander::{Expander, Expansion};
use crate::gen::{gen_msg_program, GenOpts};
use crate::names::variant_ident;
use crate::proj;
use crate::render;
use proptest::strategy::{Strategy, ValueTree};
use serde_json::{json, Value};
use std::collections::BTreeSet;
use svmodel::*;

// ------------------------------------------------------------------------------------------
// C06a

#[derive(Clone, Debug, serde::Serialize, serde::Deserialize)]
pub struct EpConfig {
    pub overrides: Vec<Kind>,
    pub migrate: bool,
    pub reply: bool,
    pub replies_feature: bool,
    pub generic: bool,
}

pub fn ep_config(i: usize) -> EpConfig {
    let mut overrides = vec![];
    for (b, k) in Kind::ALL.iter().enumerate() {
        if i & (1 << b) != 0 {
            overrides.push(*k);
        }
    }
    EpConfig {
        overrides,
        migrate: i & (1 << 6) != 0,
        reply: i & (1 << 7) != 0,
        replies_feature: i & (1 << 8) != 0,
        generic: i & (1 << 9) != 0,
    }
}

pub fn reply_method(name: &str, replies_feature: bool, err: ErrTy) -> Method {
    Method {
        name: name.to_string(),
        role: Role::Handler(Kind::Reply),
        args: vec![],
        err,
        resp: RespTy::EchoA,
        resp_explicit: false,
        variant_attrs: vec![],
        reply: Some(ReplySpec {
            handlers: vec![],
            on: if replies_feature { ReplyOn::Success } else { ReplyOn::Always },
            data: DataMode::Absent,
            data_ty: Ty::U32,
            payload: Payload::Raw,
        }),
    }
}

/// Apply an entry-point configuration to a base program.
pub fn apply_ep_config(mut p: Program, cfg: &EpConfig) -> Program {
    p.contract.overrides = cfg.overrides.clone();
    p.contract.replies = cfg.replies_feature;
    p.contract.methods.retain(|m| m.kind() != Some(Kind::Migrate) && m.kind() != Some(Kind::Reply));
    if cfg.migrate {
        p.contract.methods.push(Method {
            name: "vp_migrate".into(),
            role: Role::Handler(Kind::Migrate),
            args: vec![Arg { name: "to".into(), ty: Ty::Str, attrs: vec![] }],
            err: ErrTy::Std,
            resp: RespTy::EchoA,
            resp_explicit: false,
            variant_attrs: vec![],
            reply: None,
        });
    }
    if cfg.reply {
        p.contract.methods.push(reply_method("vp_reply", cfg.replies_feature, p.contract.error));
    }
    if cfg.generic && p.contract.generics.is_empty() {
        p.contract.generics.push(Ty::Rec);
    }
    p.contract.entry_points = true;
    p
}

pub fn expected_eps(p: &Program) -> BTreeSet<&'static str> {
    let mut s = BTreeSet::new();
    for k in [Kind::Instantiate, Kind::Exec, Kind::Query, Kind::Sudo] {
        if !p.contract.overrides.contains(&k) {
            s.insert(k.ep());
        }
    }
    for k in [Kind::Migrate, Kind::Reply] {
        if p.has_kind(0, k) && !p.contract.overrides.contains(&k) {
            s.insert(k.ep());
        }
    }
    s
}

pub fn check_entry_points(ex: &mut Expander, p: &Program) -> Result<(), Bad> {
    let item = render::render_contract_item(p);
    let e = ex.expand("entry_points", &render::entry_points_attr(p), &format!("#[contract]\n{item}")).map_err(unparsable)?;
    let text = clean_text(&e, "entry_points", p)?;
    let file = proj::parse(text).map_err(unparsable)?;
    let fns = proj::entry_fns(&file).ok_or_else(|| viol("ep-module-missing", "expansion has no `entry_points` module", json!({"program": p})))?;
    let got: Vec<String> = fns.iter().map(|(n, _)| n.clone()).collect();
    let got_set: BTreeSet<&str> = got.iter().map(|s| s.as_str()).collect();
    let want = expected_eps(p);
    if got_set != want || got.len() != got_set.len() {
        let missing: Vec<&&str> = want.iter().filter(|w| !got_set.contains(**w)).collect();
        let extra: Vec<&&str> = got_set.iter().filter(|g| !want.contains(**g)).collect();
        return Err(viol(
            format!("ep-set:missing={missing:?};extra={extra:?}"),
            "the set of generated entry points differs from {defaults + declared migrate/reply} minus the overridden kinds",
            json!({"overrides": p.contract.overrides, "expected": want, "generated": got, "migrate_declared": p.has_kind(0, Kind::Migrate), "reply_declared": p.has_kind(0, Kind::Reply)}),
        ));
    }
    for (name, msg) in &fns {
        let kind = Kind::ALL.iter().find(|k| k.ep() == name).unwrap();
        let want_tail = match kind {
            Kind::Exec => "ContractExec",
            Kind::Query => "ContractQuery",
            Kind::Sudo => "ContractSudo",
            Kind::Instantiate => "Instantiate",
            Kind::Migrate => "Migrate",
            Kind::Reply => "Reply",
        };
        if !msg.trim_end().ends_with(want_tail) {
            return Err(viol(format!("ep-msg-type:{name}"), "entry point takes the message type of another kind", json!({"entry_point": name, "msg_type": msg})));
        }
    }
    Ok(())
}

pub fn c06a(ctx: &Ctx, exe: &std::path::PathBuf, out: &mut Outcome) {
    let rounds = if ctx.quick() { 1 } else { 16 };
    let mut res = E1Result { stats: Stats::default(), failures: vec![], harness: vec![] };
    let known = ctx.known_keys();
    if let Some(path) = &ctx.replay {
        let v: Value = serde_json::from_str(&std::fs::read_to_string(path).unwrap_or_default()).unwrap_or(Value::Null);
        if v["salt"] != "ep-config" {
            return;
        }
        let p: Program = serde_json::from_value(v["case"]["program"].clone()).expect("program in replay");
        let mut ex = Expander::spawn(exe).expect("expander");
        res.stats.evaluations = 1;
        if let Err(Bad::Violation { key, what, detail }) = check_entry_points(&mut ex, &p) {
            res.failures.push(E1Failure { key, what, case: v["case"].clone(), detail });
        }
        to_outcome(ctx, "ep-config", res, out);
        return;
    }
    let results = std::sync::Mutex::new(res);
    std::thread::scope(|s| {
        for round in 0..rounds {
            let results = &results;
            let known = &known;
            s.spawn(move || {
                let mut ex = match Expander::spawn(exe) {
                    Ok(e) => e,
                    Err(e) => {
                        results.lock().unwrap().harness.push(e);
                        return;
                    }
                };
                let tapes = if round == 0 { vec![vec![0u32; 4]; 1024] } else { crate::draw_tapes(ctx.seed ^ (round as u64) << 20, 1024, 600) };
                let mut st = Stats::default();
                let mut failures = vec![];
                for (i, tape) in tapes.into_iter().enumerate() {
                    let cfg = ep_config(i);
                    let opts = GenOpts { allow_generics: cfg.generic, allow_attrs: false, ..GenOpts::default() };
                    let p = apply_ep_config(gen_msg_program("p_ep", tape, &opts), &cfg);
                    st.evaluations += 1;
                    st.class(&format!("overrides:{}", cfg.overrides.len()));
                    if !cfg.overrides.is_empty() || cfg.migrate || cfg.reply {
                        st.nontrivial(&(i, round));
                    }
                    st.sample(|| json!({"config": cfg, "expected_entry_points": expected_eps(&p)}));
                    match check_entry_points(&mut ex, &p) {
                        Ok(()) => {}
                        Err(Bad::Violation { key, what, detail }) => {
                            if known.contains(&key) {
                                st.class("excluded_known");
                            }
                            if !failures.iter().any(|f: &E1Failure| f.key == key) {
                                failures.push(E1Failure { key, what, case: json!({"config": cfg, "program": p}), detail });
                            }
                        }
                        Err(Bad::Harness(h)) => {
                            results.lock().unwrap().harness.push(h);
                            break;
                        }
                    }
                }
                st.expansions = ex.requests;
                let mut r = results.lock().unwrap();
                let stm = std::mem::take(&mut st);
                merge_stats(&mut r.stats, stm);
                for f in failures {
                    if !r.failures.iter().any(|g| g.key == f.key) {
                        r.failures.push(f);
                    }
                }
            });
        }
    });
    let res = results.into_inner().unwrap();
    out.extra.insert("exhaustive_subspace".into(), json!({"what": "all 2^6 override subsets x migrate declared? x reply declared? x replies feature x generic?", "size": 1024, "rounds_of_random_base_programs": rounds}));
    to_outcome(ctx, "ep-config", res, out);
}

pub fn merge_stats(a: &mut Stats, b: Stats) {
    a.evaluations += b.evaluations;
    a.expansions += b.expansions;
    a.nontrivial.extend(b.nontrivial);
    for (k, v) in b.classes {
        *a.classes.entry(k).or_insert(0) += v;
    }
    for s in b.samples {
        if a.samples.len() < 5 {
            a.samples.push(s);
        }
    }
}

// ------------------------------------------------------------------------------------------
// C17a: forwarded attributes land on exactly the designated item

pub fn expected_markers(p: &Program) -> Vec<(u32, String)> {
    let mut out = vec![];
    let ty_name = |part: usize, k: Kind| -> String {
        if part == 0 {
            k.msg_ty().to_string()
        } else {
            format!("{}{}", p.interfaces[part - 1].trait_name, k.msg_ty())
        }
    };
    for (k, a) in &p.contract.msg_attrs {
        // `reply` is an accepted kind without a message type: an attribute forwarded to it lands nowhere
        if *k == Kind::Reply {
            continue;
        }
        if let MsgAttr::Marker(n) | MsgAttr::DeriveMarker(n) = a {
            out.push((*n, format!("mod sv::type {}", ty_name(0, *k))));
        }
    }
    for (i, iface) in p.interfaces.iter().enumerate() {
        for (k, a) in &iface.msg_attrs {
            if let MsgAttr::Marker(n) | MsgAttr::DeriveMarker(n) = a {
                out.push((*n, format!("mod sv::type {}", ty_name(i + 1, *k))));
            }
        }
    }
    for part in 0..p.parts() {
        for m in p.methods_of(part) {
            let Some(kind) = m.kind() else { continue };
            if kind == Kind::Reply {
                continue;
            }
            let base = format!("mod sv::type {}", ty_name(part, kind));
            let vpath = if kind.is_enum() { format!("{base}::variant {}", variant_ident(&m.name)) } else { base.clone() };
            for a in &m.variant_attrs {
                if let VariantAttr::Marker(n) = a {
                    out.push((*n, vpath.clone()));
                }
            }
            for arg in &m.args {
                for a in &arg.attrs {
                    if let ArgAttr::Marker(n) = a {
                        out.push((*n, format!("{vpath}::field {}", arg.name)));
                    }
                }
            }
        }
    }
    out.sort();
    out
}

pub fn c17a_case(ex: &mut Expander, tape: &Vec<u32>, st: &mut Stats) -> Result<(), Bad> {
    let opts = GenOpts { allow_attrs: true, ..GenOpts::default() };
    let mut p = gen_msg_program("p_attr", tape.clone(), &opts);
    // make forwarding dense: every program gets markers on several kinds
    densify_markers(&mut p);
    let want = expected_markers(&p);
    let exp = expand_program(ex, &p)?;
    let mut got: Vec<(u32, String)> = vec![];
    for (n, e) in exp.ifaces.iter().enumerate() {
        let text = clean_text(e, "interface", &p)?;
        let file = proj::parse(text).map_err(unparsable)?;
        let _ = n;
        got.extend(proj::markers(&file));
    }
    let text = clean_text(&exp.contract, "contract", &p)?;
    got.extend(proj::markers(&proj::parse(text).map_err(unparsable)?));
    got.sort();
    st.class(&format!("markers:{}", want.len().min(8)));
    let kinds: BTreeSet<String> = want.iter().map(|(_, l)| l.split("::").nth(1).unwrap_or("").to_string()).collect();
    if want.len() >= 2 && kinds.len() >= 2 {
        st.nontrivial(&serde_json::to_string(&p).unwrap());
    }
    st.sample(|| json!({"expected_placements": want}));
    if got != want {
        let missing: Vec<&(u32, String)> = want.iter().filter(|w| !got.contains(w)).collect();
        let extra: Vec<&(u32, String)> = got.iter().filter(|g| !want.contains(g)).collect();
        let kind = |l: &str| -> &'static str {
            if l.contains("::field ") {
                "field"
            } else if l.contains("::variant ") {
                "variant"
            } else {
                "type"
            }
        };
        let key = format!(
            "placement:missing={:?};extra={:?}",
            missing.iter().map(|(_, l)| kind(l)).collect::<BTreeSet<_>>(),
            extra.iter().map(|(_, l)| kind(l)).collect::<BTreeSet<_>>()
        );
        return Err(viol(key, "a forwarded attribute is not attached to exactly the designated item", json!({"missing": missing, "unexpected": extra, "program": p})));
    }
    Ok(())
}

fn densify_markers(p: &mut Program) {
    let mut next = 1000u32;
    let mut mk = || {
        next += 1;
        next
    };
    // one marker on two different kinds of the contract, one on each interface
    let kinds: Vec<Kind> = [Kind::Instantiate, Kind::Exec, Kind::Query, Kind::Sudo].into_iter().collect();
    let a = kinds[p.contract.methods.len() % kinds.len()];
    let b = kinds[(p.contract.methods.len() + 1) % kinds.len()];
    p.contract.msg_attrs.push((a, MsgAttr::Marker(mk())));
    p.contract.msg_attrs.push((b, MsgAttr::Marker(mk())));
    // forwarded derive lists whose members end like the derives the framework adds itself
    p.contract.msg_attrs.push((a, MsgAttr::DeriveMarker(mk())));
    p.contract.msg_attrs.push((b, MsgAttr::DeriveMarker(mk())));
    p.contract.msg_attrs.push((kinds[(p.contract.methods.len() + 2) % kinds.len()], MsgAttr::DeriveMarker(mk())));
    // forwarded to `reply` (no generated message type): must not show up anywhere
    p.contract.msg_attrs.push((Kind::Reply, MsgAttr::Marker(mk())));
    p.contract.msg_attrs.push((Kind::Reply, MsgAttr::DeriveMarker(mk())));
    for i in p.interfaces.iter_mut() {
        let k = Kind::ENUMS[i.methods.len() % 3];
        i.msg_attrs.push((k, MsgAttr::Marker(mk())));
        i.msg_attrs.push((Kind::ENUMS[(i.methods.len() + 1) % 3], MsgAttr::DeriveMarker(mk())));
    }
    for part_methods in std::iter::once(&mut p.contract.methods).chain(p.interfaces.iter_mut().map(|i| &mut i.methods)) {
        for (n, m) in part_methods.iter_mut().enumerate() {
            let Some(kind) = m.kind() else { continue };
            if kind.is_enum() && n % 2 == 0 {
                m.variant_attrs.push(VariantAttr::Marker(mk()));
            }
            if let Some(a) = m.args.first_mut() {
                if n % 3 == 0 {
                    a.attrs.push(ArgAttr::Marker(mk()));
                }
            }
        }
    }
}

// ------------------------------------------------------------------------------------------
// C15a: generated message types carry exactly the generic parameters they use

fn used_params(p: &Program, part: usize, kind: Kind) -> Vec<usize> {
    let mut used = vec![];
    for m in p.methods_of(part) {
        if m.kind() != Some(kind) {
            continue;
        }
        for a in &m.args {
            a.ty.params_used(&mut used);
        }
        if kind == Kind::Query {
            if let RespTy::Param(i) = m.resp {
                if !used.contains(&i) {
                    used.push(i);
                }
            }
        }
    }
    used.sort();
    used
}

pub fn c15a_case(ex: &mut Expander, tape: &Vec<u32>, st: &mut Stats) -> Result<(), Bad> {
    let opts = GenOpts { allow_attrs: false, ..GenOpts::default() };
    let mut p = gen_msg_program("p_gen", tape.clone(), &opts);
    let mut t = svmodel::tape::Tape::new(tape.iter().rev().cloned().collect());
    if t.chance(25) {
        // a lifetime parameter next to the type parameters: used by no message
        p.contract.lifetime = true;
        p.contract.entry_points = false;
    }
    if !p.contract.generics.is_empty() && t.chance(30) {
        // the error type of the StdError-returning queries mentions a parameter (and nothing else does, often)
        p.contract.query_err_param = Some(t.pick(p.contract.generics.len()));
    }
    if p.contract.generics.is_empty() {
        p.contract.generics = vec![Ty::Rec, Ty::Choice];
        if t.chance(40) {
            p.contract.query_err_param = Some(t.pick(2));
        }
        // assign the new parameters to some arguments: direct, nested, response-only, unused
        let n = p.contract.methods.len();
        for (mi, m) in p.contract.methods.iter_mut().enumerate() {
            if m.kind().is_none() {
                continue;
            }
            match (mi + t.pick(6)) % 7 {
                4 => m.args.push(Arg { name: format!("g{mi}"), ty: Ty::Arr2(Box::new(Ty::Param(1))), attrs: vec![] }),
                5 => m.args.push(Arg { name: format!("g{mi}"), ty: Ty::Map(Box::new(Ty::Boxed(Box::new(Ty::Param(0))))), attrs: vec![] }),
                0 => m.args.push(Arg { name: format!("g{mi}"), ty: Ty::Param(0), attrs: vec![] }),
                1 => m.args.push(Arg { name: format!("g{mi}"), ty: Ty::Vec(Box::new(Ty::Opt(Box::new(Ty::Param(1))))), attrs: vec![] }),
                2 => m.args.push(Arg { name: format!("g{mi}"), ty: Ty::Tup2(Box::new(Ty::Param(0)), Box::new(Ty::U32)), attrs: vec![] }),
                3 if m.kind() == Some(Kind::Query) => m.resp = RespTy::Param(t.pick(2)),
                _ => {}
            }
            let _ = n;
        }
    }
    if p.contract.generics.len() >= 2 && t.chance(50) {
        p.contract.rel_bounds = vec![(0, 1)];
    }
    let exp = expand_program(ex, &p)?;
    let ctext = clean_text(&exp.contract, "contract", &p)?;
    let cfile = proj::parse(ctext).map_err(unparsable)?;
    let sv = proj::find_mod(&cfile.items, "sv").ok_or_else(|| viol("no-sv-mod", "contract expansion has no `sv` module", json!({})))?;
    let items = proj::mod_items(sv);
    let nparams = p.contract.generics.len();
    st.class(&format!("params:{nparams}"));
    let names = render::param_names(&p);
    let mut shapes = BTreeSet::new();
    for kind in [Kind::Instantiate, Kind::Exec, Kind::Query, Kind::Sudo, Kind::Migrate] {
        if !kind.is_enum() && !p.has_kind(0, kind) {
            continue;
        }
        let used = used_params(&p, 0, kind);
        let want: BTreeSet<String> = used.iter().map(|i| names[*i].clone()).collect();
        let Some(info) = proj::type_info(items, kind.msg_ty()) else {
            return Err(viol("type-missing", "generated message type not found", json!({"type": kind.msg_ty()})));
        };
        let got: BTreeSet<String> = info.generics.iter().cloned().collect();
        if got != want || info.generics.len() != got.len() {
            let over = got.difference(&want).count() > 0;
            return Err(viol(
                format!("generics:{}:{}", kind.attr(), if over { "over" } else { "under" }),
                "message type is not parameterised by exactly the type parameters its handlers use",
                json!({"type": kind.msg_ty(), "expected": want, "got": info.generics, "program": p}),
            ));
        }
        if used.len() < nparams {
            shapes.insert("partial-use");
        }
        // bounds on the inherent impl mention used parameters only
        for (_gens, preds) in proj::inherent_impls(items, kind.msg_ty()) {
            for pred in preds {
                for (i, n) in names.iter().enumerate() {
                    if !used.contains(&i) && pred.split(|c: char| !c.is_alphanumeric() && c != '_').any(|tok| tok == n) {
                        return Err(viol(
                            format!("bounds:{}", kind.attr()),
                            "message type is constrained by a bound mentioning a parameter it does not carry",
                            json!({"type": kind.msg_ty(), "predicate": pred, "unused_parameter": n, "program": p}),
                        ));
                    }
                }
            }
        }
        // struct messages: exactly the surviving predicates
        if !kind.is_enum() {
            let want_preds: BTreeSet<String> = surviving_preds(&p, &used).into_iter().collect();
            for (_g, preds) in proj::inherent_impls(items, kind.msg_ty()) {
                let got_preds: BTreeSet<String> = preds.iter().map(|s| s.replace(' ', "")).collect();
                if got_preds != want_preds {
                    return Err(viol(
                        format!("bounds-set:{}", kind.attr()),
                        "message type is not constrained by exactly the user's bounds over its own parameters",
                        json!({"type": kind.msg_ty(), "expected": want_preds, "got": got_preds, "program": p}),
                    ));
                }
            }
        }
    }
    // aliases in the ContractApi impl name the same lists
    for it in items {
        if let syn::Item::Impl(im) = it {
            if im.trait_.as_ref().map(|t| proj::ts(&t.1).ends_with("ContractApi")).unwrap_or(false) {
                for ii in &im.items {
                    if let syn::ImplItem::Type(t) = ii {
                        let name = t.ident.to_string();
                        let Some(kind) = [Kind::Instantiate, Kind::Exec, Kind::Query, Kind::Sudo, Kind::Migrate].into_iter().find(|k| k.accessor() == name) else { continue };
                        if !kind.is_enum() && !p.has_kind(0, kind) {
                            continue;
                        }
                        let ty = proj::ts(&t.ty);
                        let used = used_params(&p, 0, kind);
                        for (i, n) in names.iter().enumerate() {
                            let mentioned = ty.split(|c: char| !c.is_alphanumeric() && c != '_').any(|tok| tok == n);
                            if mentioned != used.contains(&i) {
                                return Err(viol(format!("alias:{}", kind.attr()), "ContractApi alias names a different parameter list than the message type", json!({"alias": name, "type": ty, "program": p})));
                            }
                        }
                    }
                }
            }
        }
    }
    // interfaces: associated types play the role of parameters
    for (n, iface) in p.interfaces.iter().enumerate() {
        let text = clean_text(&exp.ifaces[n], "interface", &p)?;
        let file = proj::parse(text).map_err(unparsable)?;
        let sv = proj::find_mod(&file.items, "sv").ok_or_else(|| viol("no-sv-mod", "interface expansion has no `sv` module", json!({})))?;
        let items = proj::mod_items(sv);
        for kind in Kind::ENUMS {
            let used = used_params(&p, n + 1, kind);
            let want: BTreeSet<String> = used.iter().map(|i| iface.assoc_name(*i)).collect();
            let tname = format!("{}{}", iface.trait_name, kind.msg_ty());
            let Some(info) = proj::type_info(items, &tname) else {
                return Err(viol("type-missing", "generated interface message type not found", json!({"type": tname})));
            };
            let got: BTreeSet<String> = info.generics.iter().cloned().collect();
            if got != want || info.generics.len() != got.len() {
                let over = got.difference(&want).count() > 0;
                return Err(viol(
                    format!("generics-iface:{}:{}", kind.attr(), if over { "over" } else { "under" }),
                    "interface message type is not parameterised by exactly the associated types its handlers use",
                    json!({"type": tname, "expected": want, "got": info.generics, "program": p}),
                ));
            }
            if used.len() < iface.assoc.len() {
                shapes.insert("assoc-partial-use");
            }
        }
        // every `InterfaceMessagesApi` impl must hand the associated types to the message type
        // in the order of the type's own parameter list (positional agreement, not only as sets)
        for it in items {
            let syn::Item::Impl(im) = it else { continue };
            if !im.trait_.as_ref().map(|t| proj::ts(&t.1).ends_with("InterfaceMessagesApi")).unwrap_or(false) {
                continue;
            }
            for ii in &im.items {
                let syn::ImplItem::Type(t) = ii else { continue };
                let Some(kind) = Kind::ENUMS.into_iter().find(|k| k.accessor() == t.ident.to_string()) else { continue };
                let tname = format!("{}{}", iface.trait_name, kind.msg_ty());
                let Some(info) = proj::type_info(items, &tname) else { continue };
                let syn::Type::Path(tp) = &t.ty else { continue };
                let Some(last) = tp.path.segments.last() else { continue };
                let syn::PathArguments::AngleBracketed(ab) = &last.arguments else { continue };
                let args: Vec<String> = ab.args.iter().map(|a| proj::ts(a)).collect();
                if args.len() != info.generics.len() {
                    continue;
                }
                for (pos, a) in args.iter().enumerate() {
                    let toks: Vec<&str> = a.split(|c: char| !c.is_alphanumeric() && c != '_').filter(|x| !x.is_empty()).collect();
                    let named: Vec<String> = (0..iface.assoc.len()).map(|k| iface.assoc_name(k)).filter(|n| toks.contains(&n.as_str())).collect();
                    if named.len() == 1 && named[0] != info.generics[pos] {
                        return Err(viol(
                            format!("alias-order-iface:{}", kind.attr()),
                            "an InterfaceMessagesApi alias passes the associated types in another order than the message type declares its parameters",
                            json!({"alias": proj::ts(&t.ty), "type_parameters": info.generics, "program": p}),
                        ));
                    }
                }
                if args.len() >= 2 {
                    shapes.insert("iface-alias-two-parameters");
                }
            }
        }
    }
    let nested = p.contract.methods.iter().any(|m| m.args.iter().any(|a| a.ty.depth() > 0 && { let mut u = vec![]; a.ty.params_used(&mut u); !u.is_empty() }));
    let resp_only = p.contract.methods.iter().any(|m| matches!(m.resp, RespTy::Param(_)) && m.kind() == Some(Kind::Query));
    if nested {
        st.class("shape:nested-use");
    }
    if resp_only {
        st.class("shape:response-use");
    }
    if !p.contract.rel_bounds.is_empty() {
        st.class("shape:two-parameter-bound");
    }
    for s in &shapes {
        st.class(&format!("shape:{s}"));
    }
    if nested || resp_only || !shapes.is_empty() || !p.contract.rel_bounds.is_empty() {
        st.nontrivial(&serde_json::to_string(&p).unwrap());
    }
    st.sample(|| {
        let used: Vec<(&str, Vec<usize>)> = [Kind::Instantiate, Kind::Exec, Kind::Query, Kind::Sudo].iter().map(|k| (k.attr(), used_params(&p, 0, *k))).collect();
        json!({"generics": p.contract.generics.len(), "rel_bounds": p.contract.rel_bounds, "used_by_kind": used})
    });
    Ok(())
}

/// user predicates all of whose parameters are used (rendered without spaces)
fn surviving_preds(p: &Program, used: &[usize]) -> Vec<String> {
    let mut out = vec![];
    for i in 0..p.contract.generics.len() {
        let rel: Vec<usize> = p.contract.rel_bounds.iter().filter(|(x, _)| *x == i).map(|(_, j)| *j).collect();
        let mentioned: Vec<usize> = std::iter::once(i).chain(rel.iter().cloned()).collect();
        if mentioned.iter().all(|m| used.contains(m)) {
            let mut s = format!("T{i}:Gen");
            for j in rel {
                s.push_str(&format!("+Rel<T{j}>"));
            }
            out.push(s);
        }
    }
    out
}

pub fn run_tape_prop(
    ctx: &Ctx,
    exe: &std::path::PathBuf,
    salt: &str,
    cases: u32,
    f: impl Fn(&mut Expander, &Vec<u32>, &mut Stats) -> Result<(), Bad> + Sync,
    out: &mut Outcome,
) {
    let res = run_generated(ctx, exe, salt, || tape_strategy(600), cases, 8, f);
    to_outcome(ctx, salt, res, out);
}

#[allow(dead_code)]
fn unused(_: Expansion) {}
#[allow(dead_code)]
fn draw_one<T: std::fmt::Debug>(s: &proptest::strategy::BoxedStrategy<T>, seed: u64) -> T {
    let mut b = [0u8; 32];
    b[..8].copy_from_slice(&seed.to_le_bytes());
    let mut r = proptest::test_runner::TestRunner::new_with_rng(Default::default(), proptest::test_runner::TestRng::from_seed(proptest::test_runner::RngAlgorithm::ChaCha, &b));
    s.new_tree(&mut r).unwrap().current()
}

/// The macro accepted the program, so its output has to be Rust: output that does not parse is
/// a violation of its own (the harness' parser is syn 2 with the `full` feature).
fn unparsable(e: String) -> Bad {
    viol("unparsable-output", "the expansion of an accepted program does not parse as Rust", json!({"error": e}))
}
