//! Engine E3: compile-unit batches.  Every unit is one `examples/<name>.rs` target of a
//! generated package; `cargo check --examples --keep-going --message-format=json` yields,
//! per unit, success or the list of error diagnostics.

use crate::corpus::{target_dir, Diag, REPO, SYLVIA_FEATURES, VERIF};
use serde_json::Value;
use std::collections::BTreeMap;
use std::path::Path;
use std::process::Command;

pub struct Unit {
    pub name: String,
    pub source: String,
}

#[derive(Debug, Clone, Default)]
pub struct UnitResult {
    pub ok: bool,
    pub errors: Vec<Diag>,
}

pub const UNIT_PRELUDE: &str = "#![allow(unused_imports, unused_variables, dead_code, clippy::all, non_snake_case, deprecated, non_camel_case_types)]\nuse svrt::prelude::*;\n";

/// Wrap a program source as a compile unit.
pub fn unit_source(sv: &str, body: &str) -> String {
    format!("{UNIT_PRELUDE}use {sv}::{{contract, entry_points, interface}};\n{body}\nfn main() {{}}\n")
}

pub fn check_units(pkg: &str, units: &[Unit], alias: Option<&str>) -> Result<BTreeMap<String, UnitResult>, String> {
    let dir = Path::new(VERIF).join("work").join(pkg);
    let ex = dir.join("examples");
    let _ = std::fs::remove_dir_all(&ex);
    std::fs::create_dir_all(&ex).map_err(|e| e.to_string())?;
    std::fs::create_dir_all(dir.join("src")).map_err(|e| e.to_string())?;
    let dep = match alias {
        Some(a) => format!("{a} = {{ package = \"sylvia\", path = \"{REPO}/sylvia\", features = {SYLVIA_FEATURES} }}"),
        None => format!("sylvia = {{ path = \"{REPO}/sylvia\", features = {SYLVIA_FEATURES} }}"),
    };
    let toml = format!(
        "[package]\nname = \"{pkg}\"\nversion = \"0.1.0\"\nedition = \"2021\"\n\n[workspace]\n\n[dependencies]\n{dep}\nsvrt = {{ path = \"{VERIF}/engine/svrt\" }}\n\n[profile.dev]\ndebug = 0\nincremental = false\n\n[profile.dev.package.\"*\"]\nopt-level = 2\n"
    );
    std::fs::write(dir.join("Cargo.toml"), toml).map_err(|e| e.to_string())?;
    std::fs::write(dir.join("src/lib.rs"), "").map_err(|e| e.to_string())?;
    std::fs::create_dir_all(dir.join(".cargo")).ok();
    std::fs::write(dir.join(".cargo/config.toml"), "[net]\noffline = true\n").ok();
    if !dir.join("Cargo.lock").exists() {
        let lock = std::fs::read_to_string(Path::new(VERIF).join("engine/Cargo.lock")).map_err(|e| e.to_string())?;
        std::fs::write(dir.join("Cargo.lock"), lock).map_err(|e| e.to_string())?;
    }
    for u in units {
        std::fs::write(ex.join(format!("{}.rs", u.name)), &u.source).map_err(|e| e.to_string())?;
    }
    let out = Command::new("cargo")
        .current_dir(&dir)
        .args(["check", "--examples", "--keep-going", "--offline", "--message-format=json", "--target-dir"])
        .arg(target_dir("corpus"))
        .env("CARGO_NET_OFFLINE", "true")
        .env("RUSTFLAGS", "-Awarnings")
        .output()
        .map_err(|e| e.to_string())?;
    let mut res: BTreeMap<String, UnitResult> = units.iter().map(|u| (u.name.clone(), UnitResult::default())).collect();
    let mut finished: std::collections::BTreeSet<String> = Default::default();
    let mut lib_failed = false;
    for line in String::from_utf8_lossy(&out.stdout).lines() {
        let Ok(v) = serde_json::from_str::<Value>(line) else { continue };
        let target = v["target"]["name"].as_str().unwrap_or("").to_string();
        let is_example = v["target"]["kind"].as_array().map(|k| k.iter().any(|x| x == "example")).unwrap_or(false);
        match v["reason"].as_str() {
            Some("compiler-artifact") if is_example => {
                finished.insert(target);
            }
            Some("compiler-message") => {
                let m = &v["message"];
                if m["level"].as_str() == Some("error") {
                    let span = m["spans"].as_array().and_then(|s| s.iter().find(|s| s["is_primary"].as_bool() == Some(true)).or(s.first())).cloned().unwrap_or(Value::Null);
                    let d = Diag {
                        level: "error".into(),
                        message: m["message"].as_str().unwrap_or("").to_string(),
                        file: span["file_name"].as_str().unwrap_or("").to_string(),
                        line: span["line_start"].as_u64().unwrap_or(0),
                        rendered: m["rendered"].as_str().unwrap_or("").to_string(),
                    };
                    if is_example {
                        if let Some(r) = res.get_mut(&target) {
                            r.errors.push(d);
                        }
                    } else if !d.message.starts_with("aborting due to") {
                        lib_failed = true;
                    }
                }
            }
            _ => {}
        }
    }
    if lib_failed {
        return Err(format!("a dependency of the unit package failed to build:\n{}", String::from_utf8_lossy(&out.stderr).lines().rev().take(20).collect::<Vec<_>>().into_iter().rev().collect::<Vec<_>>().join("\n")));
    }
    for (name, r) in res.iter_mut() {
        r.errors.retain(|e| !e.message.starts_with("aborting due to") && !e.message.starts_with("could not compile"));
        r.ok = finished.contains(name) && r.errors.is_empty();
        if !r.ok && r.errors.is_empty() && !finished.contains(name) {
            // neither finished nor diagnosed: tooling trouble
            return Err(format!("unit {name} neither finished nor produced a diagnostic:\n{}", String::from_utf8_lossy(&out.stderr).lines().rev().take(15).collect::<Vec<_>>().into_iter().rev().collect::<Vec<_>>().join("\n")));
        }
    }
    Ok(res)
}
