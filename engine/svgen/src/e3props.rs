//! E3 properties: compile-unit batches for C19(b), C05(b), C18(b) and the probe units of
//! C01 / C08 / C15.

use crate::check::{Ctx, Outcome};
use crate::e3::{check_units, unit_source, Unit};
use crate::gen::{gen_msg_program, GenOpts};
use crate::render::{self, RenderOpts};
use serde_json::{json, Value};
use svmodel::*;

pub enum Want {
    Compiles,
    /// must fail with an error containing this fragment
    FailsWith(&'static str),
}

pub struct Probe {
    pub unit: Unit,
    pub want: Want,
    /// signature for known-finding matching
    pub key: String,
    pub what: String,
    pub nontrivial: bool,
    pub class: String,
    /// first line (1-based) of the offending item inside the unit, for span checks
    pub item_line: Option<usize>,
}

pub fn run_probes(ctx: &Ctx, pkg: &str, probes: Vec<Probe>, alias: Option<&str>, out: &mut Outcome) {
    let probes: Vec<Probe> = if let Some(path) = &ctx.replay {
        let v: Value = serde_json::from_str(&std::fs::read_to_string(path).unwrap_or_default()).unwrap_or(Value::Null);
        if v["engine"] != "E3" {
            return;
        }
        let src = v["source"].as_str().unwrap_or("").to_string();
        let key = v["key"].as_str().unwrap_or("").to_string();
        probes
            .into_iter()
            .filter(|p| p.key == key)
            .take(1)
            .map(|mut p| {
                p.unit.source = src.clone();
                p
            })
            .collect()
    } else {
        probes
    };
    if probes.is_empty() {
        return;
    }
    let units: Vec<Unit> = probes.iter().map(|p| Unit { name: p.unit.name.clone(), source: p.unit.source.clone() }).collect();
    let res = match check_units(pkg, &units, alias) {
        Ok(r) => r,
        Err(e) => {
            out.inconclusive = Some(e);
            return;
        }
    };
    let mut classes: std::collections::BTreeMap<String, u64> = serde_json::from_value(out.classes.clone()).unwrap_or_default();
    for p in &probes {
        out.evaluations += 1;
        *classes.entry(p.class.clone()).or_insert(0) += 1;
        if p.nontrivial {
            out.nontrivial += 1;
        }
        let r = &res[&p.unit.name];
        if out.samples.len() < 6 {
            out.samples.push(json!({"unit": p.unit.name, "class": p.class, "expects": match &p.want { Want::Compiles => "compiles".to_string(), Want::FailsWith(f) => format!("error containing `{f}`") }, "source_excerpt": p.unit.source.lines().skip(3).take(12).collect::<Vec<_>>().join("\n")}));
        }
        let problem: Option<(String, Value)> = match &p.want {
            Want::Compiles => {
                if r.ok {
                    None
                } else {
                    Some((p.what.clone(), json!({"errors": r.errors.iter().take(4).map(|e| format!("{}:{}: {}", e.file, e.line, e.message)).collect::<Vec<_>>() })))
                }
            }
            Want::FailsWith(frag) => {
                if r.ok {
                    Some((format!("{} -- but the program compiles", p.what), json!({"expected_fragment": frag})))
                } else if !r.errors.iter().any(|e| e.message.contains(frag) || e.rendered.contains(frag)) {
                    Some((format!("{} -- rejected, but not with the documented diagnostic", p.what), json!({"expected_fragment": frag, "errors": r.errors.iter().take(4).map(|e| e.message.clone()).collect::<Vec<_>>() })))
                } else if let Some(first) = p.item_line {
                    // the diagnostic must point into the offending item
                    let hit = r.errors.iter().find(|e| e.message.contains(frag) || e.rendered.contains(frag)).unwrap();
                    if hit.line != 0 && (hit.line as usize) < first {
                        Some((format!("{} -- diagnostic does not point into the offending item", p.what), json!({"line": hit.line, "item_starts_at": first, "message": hit.message})))
                    } else {
                        None
                    }
                } else {
                    None
                }
            }
        };
        if let Some((what, detail)) = problem {
            if let Some(k) = ctx.known.iter().find(|k| k.property == ctx.prop && k.key == p.key) {
                let line = format!("{} [{}]", k.desc, p.key);
                if !out.known_hits.contains(&line) {
                    out.known_hits.push(line);
                }
                *classes.entry("excluded_known".into()).or_insert(0) += 1;
                continue;
            }
            if out.violations.iter().any(|(k, _, _)| *k == p.key) {
                continue;
            }
            let v = json!({"property": ctx.prop, "engine": "E3", "key": p.key, "what": what, "detail": detail, "unit": p.unit.name, "source": p.unit.source, "seed": ctx.seed, "tier": ctx.tier});
            let path = ctx.save_replay(&v);
            out.violations.push((p.key.clone(), what, path));
        }
    }
    out.classes = json!(classes);
}

fn method(name: &str, kind: Kind, args: Vec<Arg>) -> Method {
    Method { name: name.into(), role: Role::Handler(kind), args, err: ErrTy::Std, resp: RespTy::EchoA, resp_explicit: false, variant_attrs: vec![], reply: None }
}
fn arg(name: &str, ty: Ty) -> Arg {
    Arg { name: name.into(), ty, attrs: vec![] }
}

/// A generic contract using its parameter(s) in every kind, with a partially covered reply
/// handler (pass-through arms), one interface, entry points and mt helpers.
pub fn generic_probe_program(names: &[&str]) -> Program {
    let n = names.len();
    let t = |i: usize| Ty::Param(i % n);
    let mut methods = vec![
        method("inst", Kind::Instantiate, vec![arg("a", t(0))]),
        method("run", Kind::Exec, vec![arg("x", t(0)), arg("y", Ty::Vec(Box::new(t(1))))]),
        method("ask", Kind::Query, vec![arg("q", Ty::Opt(Box::new(t(1))))]),
        method("sys", Kind::Sudo, vec![arg("s", t(0))]),
        method("mig", Kind::Migrate, vec![arg("m", t(1))]),
    ];
    methods.push(Method {
        reply: Some(ReplySpec { handlers: vec!["on_done".into()], on: ReplyOn::Success, data: DataMode::Opt, data_ty: Ty::U32, payload: Payload::Typed(vec![arg("p", Ty::U32)]) }),
        ..method("done_ok", Kind::Reply, vec![])
    });
    methods.push(Method {
        reply: Some(ReplySpec { handlers: vec!["on_fail".into()], on: ReplyOn::Error, data: DataMode::Absent, data_ty: Ty::U32, payload: Payload::Raw }),
        ..method("fail_err", Kind::Reply, vec![])
    });
    Program {
        id: "probe".into(),
        contract: Contract {
            generics: vec![Ty::Rec; n],
            generic_names: names.iter().map(|s| s.to_string()).collect(),
            rel_bounds: vec![],
            error: ErrTy::Std,
            custom_msg: false,
            custom_query: false,
            replies: true,
            overrides: vec![],
            msg_attrs: vec![],
            methods,
            entry_points: true,
            query_err_param: None,
            lifetime: false,
            flip_attr_order: false,
        },
        interfaces: vec![Interface {
            module: "if_a".into(),
            trait_name: "IfA".into(),
            explicit_as: false,
            assoc: vec![],
            assoc_names: vec![],
            alias: None,
            style: CustomStyle::Plain,
            methods: vec![method("ping", Kind::Exec, vec![arg("n", Ty::U32)]), method("peek", Kind::Query, vec![])],
            msg_attrs: vec![],
        }],
    }
}

pub const WORDS: &[&str] = &["Msg", "Query", "Param", "Data", "Item", "Value", "Key", "Resp", "Custom", "State", "Config", "Payload", "Event", "Exec", "Sudo"];

pub fn c19b_probes(ctx: &Ctx) -> Vec<Probe> {
    let mut out = vec![];
    let opts = RenderOpts { sv: "sylvia".into(), glue: false };
    let letters: Vec<String> = ('A'..='Z').map(|c| c.to_string()).collect();
    let mut names: Vec<String> = letters.clone();
    names.extend(WORDS.iter().map(|s| s.to_string()));
    for n in &names {
        let p = generic_probe_program(&[n.as_str()]);
        out.push(Probe {
            unit: Unit { name: format!("param_{}", n.to_lowercase()), source: unit_source("sylvia", &render::render_source(&p, &opts)) },
            want: Want::Compiles,
            key: format!("param-name:{n}"),
            what: format!("a generic contract whose type parameter is called `{n}` does not compile"),
            nontrivial: true,
            class: if n.len() == 1 { "param:single-letter".into() } else { "param:conventional-word".into() },
            item_line: None,
        });
    }
    // the same names as *associated types of an interface* (an interface's parameters)
    for n in &names {
        if n == "Error" {
            continue;
        }
        let mut p = generic_probe_program(&["T0"]);
        p.interfaces = vec![Interface {
            module: "if_a".into(),
            trait_name: "IfA".into(),
            explicit_as: false,
            assoc: vec![Ty::Rec],
            assoc_names: vec![n.clone()],
            alias: None,
            style: CustomStyle::Plain,
            methods: vec![
                method("ping", Kind::Exec, vec![arg("n", Ty::Assoc(0))]),
                Method { resp: RespTy::EchoA, ..method("peek", Kind::Query, vec![arg("k", Ty::Opt(Box::new(Ty::Assoc(0))))]) },
                method("poke", Kind::Sudo, vec![arg("v", Ty::Vec(Box::new(Ty::Assoc(0))))]),
            ],
            msg_attrs: vec![],
        }];
        out.push(Probe {
            unit: Unit { name: format!("assoc_{}", n.to_lowercase()), source: unit_source("sylvia", &render::render_source(&p, &opts)) },
            want: Want::Compiles,
            key: format!("assoc-name:{n}"),
            what: format!("an interface whose associated type is called `{n}` does not compile"),
            nontrivial: true,
            class: if n.len() == 1 { "assoc:single-letter".into() } else { "assoc:conventional-word".into() },
            item_line: None,
        });
    }
    // a type parameter with a conventional name next to an unrelated type whose path ends in
    // the same identifier, used by kinds that do not use the parameter: their messages are not
    // generic (C15) and can be named without type arguments
    for n in WORDS.iter() {
        let body = format!(
            "pub mod limits {{ pub use svrt::prelude::Rec as {n}; }}\n\
             pub struct Ctr<{n}> {{ _p: PhantomData<({n},)> }}\n\
             #[contract]\n\
             impl<{n}> Ctr<{n}> where {n}: Gen {{\n\
             \x20   pub const fn new() -> Self {{ Self {{ _p: PhantomData }} }}\n\
             \x20   #[sv::msg(instantiate)]\n\
             \x20   fn inst(&self, ctx: InstantiateCtx, a: {n}) -> Result<Response, StdError> {{ unimplemented!() }}\n\
             \x20   #[sv::msg(exec)]\n\
             \x20   fn run(&self, ctx: ExecCtx, x: {n}) -> Result<Response, StdError> {{ unimplemented!() }}\n\
             \x20   #[sv::msg(query)]\n\
             \x20   fn ask(&self, ctx: QueryCtx, q: limits::{n}) -> Result<EchoA, StdError> {{ unimplemented!() }}\n\
             \x20   #[sv::msg(sudo)]\n\
             \x20   fn sys(&self, ctx: SudoCtx, s: Vec<limits::{n}>) -> Result<Response, StdError> {{ unimplemented!() }}\n\
             }}\n\
             fn _names_sudo(m: sv::SudoMsg) -> sv::SudoMsg {{ m }}\n\
             fn _names_query(m: sv::QueryMsg) -> sv::QueryMsg {{ m }}\n\
             fn _names_exec<T: Gen>(m: sv::ExecMsg<T>) -> sv::ExecMsg<T> {{ m }}\n"
        );
        out.push(Probe {
            unit: Unit { name: format!("lookalike_{}", n.to_lowercase()), source: unit_source("sylvia", &body) },
            want: Want::Compiles,
            key: format!("lookalike-path:{n}"),
            what: format!("a generic contract whose type parameter `{n}` coexists with an unrelated type `limits::{n}` does not compile (the messages of kinds that only use `limits::{n}` must not be generic)"),
            nontrivial: true,
            class: "param:lookalike-path".into(),
            item_line: None,
        });
    }
    // two-parameter units drawn from the seed
    let tapes = crate::draw_tapes(ctx.seed ^ 0x19b, if ctx.quick() { 6 } else { 40 }, 4);
    for (i, t) in tapes.iter().enumerate() {
        let a = &names[(t[0] as usize) % names.len()];
        let mut b = &names[(t[1] as usize) % names.len()];
        if a == b {
            b = &names[(t[1] as usize + 1) % names.len()];
        }
        let p = generic_probe_program(&[a.as_str(), b.as_str()]);
        out.push(Probe {
            unit: Unit { name: format!("params2_{i}"), source: unit_source("sylvia", &render::render_source(&p, &opts)) },
            want: Want::Compiles,
            key: format!("param-names:{a}+{b}"),
            what: format!("a generic contract with type parameters `{a}`, `{b}` does not compile"),
            nontrivial: true,
            class: "param:two-parameters".into(),
            item_line: None,
        });
    }
    out
}

// ---- C05(b): exactly one shared wire name between two parts must be a compile error --------

/// A program whose parts share no wire name (`disjoint`) and an edit of it in which exactly two
/// parts expose one shared wire name for one kind (`overlap`).
pub struct OverlapBase {
    pub index: usize,
    pub disjoint: Program,
    pub overlap: Program,
    pub cls: &'static str,
    pub pair: &'static str,
    pub name_a: String,
    pub name_b: String,
    pub kind: Kind,
}

pub fn overlap_bases(seed: u64, n: usize, prefer_ifaces: bool) -> Vec<OverlapBase> {
    let mut out = vec![];
    let gopts = GenOpts { allow_attrs: false, ..GenOpts::default() };
    let tapes = crate::draw_tapes(seed, n * if prefer_ifaces { 8 } else { 3 }, 600);
    for (i, tape) in tapes.into_iter().enumerate() {
        if out.len() >= n {
            break;
        }
        let mut t = svmodel::tape::Tape::new(tape.iter().rev().cloned().collect());
        let p = gen_msg_program(&format!("c{i}"), tape.clone(), &gopts);
        if p.interfaces.is_empty() {
            continue;
        }
        // choose two distinct parts and a kind; make part B carry a method whose wire name equals one of part A
        let parts = p.parts();
        let two_ifaces = prefer_ifaces && t.chance(75);
        if two_ifaces && p.interfaces.len() < 2 {
            continue;
        }
        let lo = if two_ifaces { 1 } else { 0 };
        let a = lo + t.pick(parts - lo);
        let mut b = lo + t.pick(parts - lo);
        if a == b {
            b = lo + (b - lo + 1) % (parts - lo);
        }
        let kind = Kind::ENUMS[t.pick(3)];
        let mut q = p.clone();
        let near = t.chance(30);
        // fresh shared names at different places of the alphabet (the overlap scan walks sorted lists)
        const FRESH: &[&str] = &["vp_shared1", "a0_shared1", "m_shared1", "zz_shared1"];
        let fresh = FRESH[t.pick(FRESH.len())];
        let (name_a, name_b) = {
            let src = p.methods_of(a).iter().find(|m| m.kind() == Some(kind)).map(|m| m.name.clone());
            match src {
                Some(n) if !near && !t.chance(25) => (n.clone(), n),
                _ => (fresh.to_string(), if near { fresh.replace("shared1", "shared_1") } else { fresh.to_string() }),
            }
        };
        // a method of that name but another kind in the same part cannot coexist (one fn name per
        // impl / trait): take another base program instead of deleting it
        let clash = |prog: &Program, part: usize, name: &str| prog.methods_of(part).iter().any(|m| m.name == name && m.kind() != Some(kind));
        if clash(&p, a, &name_a) || clash(&p, b, &name_b) {
            continue;
        }
        let ensure = |prog: &mut Program, part: usize, name: &str, first: bool| {
            let ms = if part == 0 { &mut prog.contract.methods } else { &mut prog.interfaces[part - 1].methods };
            if !ms.iter().any(|m| m.name == name && m.kind() == Some(kind)) {
                let mut m = method(name, kind, vec![]);
                if part > 0 {
                    m.err = ErrTy::Custom;
                }
                if first {
                    ms.insert(0, m);
                } else {
                    ms.push(m);
                }
            }
        };
        let first = t.chance(50);
        ensure(&mut q, a, &name_a, first);
        ensure(&mut q, b, &name_b, !first);
        let cls = if near { "near-collision(foo1/foo_1)" } else { "same-name" };
        let pair = if a == 0 || b == 0 { "contract/interface" } else { "interface/interface" };
        out.push(OverlapBase { index: i, disjoint: p, overlap: q, cls, pair, name_a, name_b, kind });
    }
    out
}

pub fn c05b_probes(ctx: &Ctx) -> Vec<Probe> {
    let mut out = vec![];
    let opts = RenderOpts { sv: "sylvia".into(), glue: false };
    let n = if ctx.quick() { 10 } else { 60 };
    // half of the bases prefer a collision between two interfaces, half between any two parts
    let mut bases = overlap_bases(ctx.seed ^ 0x05b, n / 2, false);
    bases.extend(overlap_bases(ctx.seed ^ 0x15b, n - n / 2, true).into_iter().map(|mut b| {
        b.index += 1000;
        b
    }));
    for b in bases {
        let (i, cls, pair, kind) = (b.index, b.cls, b.pair, b.kind);
        let (name_a, name_b) = (&b.name_a, &b.name_b);
        out.push(Probe {
            unit: Unit { name: format!("overlap_{i}"), source: unit_source("sylvia", &render::render_source(&b.overlap, &opts)) },
            want: Want::FailsWith("Message overlaps between interface and contract impl"),
            key: format!("overlap-accepted:{cls}:{pair}"),
            what: format!("two parts expose `{name_a}` / `{name_b}` as {} message under the same wire name", kind.attr()),
            nontrivial: true,
            class: format!("overlap:{cls}:{pair}"),
            item_line: None,
        });
        out.push(Probe {
            unit: Unit { name: format!("disjoint_{i}"), source: unit_source("sylvia", &render::render_source(&b.disjoint, &opts)) },
            want: Want::Compiles,
            key: "disjoint-rejected".into(),
            what: "a program whose parts share no wire name does not compile".into(),
            nontrivial: true,
            class: "overlap:none(twin)".into(),
            item_line: None,
        });
    }
    out
}

// ---- C14(b): acceptance by rustc does not depend on declaration order ------------------------

/// Units that are the same program up to declaration order; all must have the same
/// accept / reject status.
pub struct Group {
    pub name: String,
    pub class: String,
    pub units: Vec<(String, Unit)>,
}

fn permuted(p: &Program, rev_ifaces: bool, rev_methods: bool) -> Program {
    let mut q = p.clone();
    if rev_ifaces {
        q.interfaces.reverse();
    }
    if rev_methods {
        q.contract.methods.reverse();
        for i in q.interfaces.iter_mut() {
            i.methods.reverse();
        }
    }
    q
}

pub fn c14b_groups(ctx: &Ctx) -> Vec<Group> {
    let opts = RenderOpts { sv: "sylvia".into(), glue: false };
    let n = if ctx.quick() { 16 } else { 60 };
    let mut out = vec![];
    for (gi, b) in overlap_bases(ctx.seed ^ 0x14b, n, true).into_iter().enumerate() {
        // overlapping programs (whether the overlap is noticed must not depend on the order) and,
        // for every fourth base, the disjoint twin
        let mut bases = vec![(format!("overlap:{}:{}", b.cls, b.pair), b.overlap.clone())];
        if gi % 4 == 0 {
            bases.push(("disjoint".to_string(), b.disjoint.clone()));
        }
        for (class, prog) in bases {
            let tag = if class == "disjoint" { "d" } else { "o" };
            let mut units = vec![];
            for (label, ri, rm) in [("declared", false, false), ("interfaces-reversed", true, false), ("methods-reversed", false, true), ("both-reversed", true, true)] {
                if ri && prog.interfaces.len() < 2 {
                    continue;
                }
                let q = permuted(&prog, ri, rm);
                units.push((label.to_string(), Unit { name: format!("g{}{tag}_{}", b.index, label.replace('-', "_")), source: unit_source("sylvia", &render::render_source(&q, &opts)) }));
            }
            out.push(Group { name: format!("g{}{tag}", b.index), class, units });
        }
    }
    // valid programs with an interface over two associated types (instantiated differently,
    // often used in the order opposite to their declaration): accepted in every method order
    let want = if ctx.quick() { 8 } else { 24 };
    let gopts = GenOpts { allow_attrs: false, ..GenOpts::default() };
    let mut found = 0;
    for (i, tape) in crate::draw_tapes(ctx.seed ^ 0x14c, want * 30, 600).into_iter().enumerate() {
        if found >= want {
            break;
        }
        let p = gen_msg_program(&format!("a{i}"), tape, &gopts);
        if !p.interfaces.iter().any(|x| x.assoc.len() >= 2) {
            continue;
        }
        found += 1;
        let mut units = vec![];
        for (label, ri, rm) in [("declared", false, false), ("methods-reversed", false, true), ("both-reversed", true, true)] {
            if ri && p.interfaces.len() < 2 {
                continue;
            }
            let q = permuted(&p, ri, rm);
            units.push((label.to_string(), Unit { name: format!("ga{i}_{}", label.replace('-', "_")), source: unit_source("sylvia", &render::render_source(&q, &opts)) }));
        }
        out.push(Group { name: format!("ga{i}"), class: "two-associated-types".into(), units });
    }
    out
}

pub fn run_groups(ctx: &Ctx, pkg: &str, groups: Vec<Group>, out: &mut Outcome) {
    let groups: Vec<Group> = if let Some(path) = &ctx.replay {
        let v: Value = serde_json::from_str(&std::fs::read_to_string(path).unwrap_or_default()).unwrap_or(Value::Null);
        if v["engine"] != "E3G" {
            return;
        }
        let units = v["units"].as_array().cloned().unwrap_or_default();
        vec![Group {
            name: "replay".into(),
            class: v["class"].as_str().unwrap_or("").to_string(),
            units: units.iter().map(|u| (u["variant"].as_str().unwrap_or("").to_string(), Unit { name: u["name"].as_str().unwrap_or("u").to_string(), source: u["source"].as_str().unwrap_or("").to_string() })).collect(),
        }]
    } else {
        groups
    };
    if groups.is_empty() {
        return;
    }
    let units: Vec<Unit> = groups.iter().flat_map(|g| g.units.iter().map(|(_, u)| Unit { name: u.name.clone(), source: u.source.clone() })).collect();
    let res = match check_units(pkg, &units, None) {
        Ok(r) => r,
        Err(e) => {
            out.inconclusive = Some(e);
            return;
        }
    };
    let mut classes: std::collections::BTreeMap<String, u64> = serde_json::from_value(out.classes.clone()).unwrap_or_default();
    for g in &groups {
        out.evaluations += g.units.len() as u64;
        *classes.entry(format!("order-group:{}", g.class)).or_insert(0) += 1;
        if g.units.len() >= 2 {
            out.nontrivial += 1;
        }
        let status: Vec<(String, bool)> = g.units.iter().map(|(l, u)| (l.clone(), res[&u.name].ok)).collect();
        if out.samples.len() < 8 {
            out.samples.push(json!({"group": g.name, "class": g.class, "orders": status.iter().map(|(l, ok)| format!("{l}:{}", if *ok { "accepted" } else { "rejected" })).collect::<Vec<_>>() }));
        }
        if status.iter().any(|(_, ok)| *ok != status[0].1) {
            let key = format!("acceptance-order-dependent:{}", g.class.split(':').next().unwrap_or(""));
            if out.violations.iter().any(|(k, _, _)| *k == key) {
                continue;
            }
            let v = json!({"property": ctx.prop, "engine": "E3G", "key": key, "class": g.class,
                "what": "the same program is accepted in one declaration order and rejected in another",
                "detail": {"status": status.iter().map(|(l, ok)| json!({"order": l, "accepted": ok})).collect::<Vec<_>>() },
                "units": g.units.iter().map(|(l, u)| json!({"variant": l, "name": u.name, "source": u.source})).collect::<Vec<_>>(),
                "seed": ctx.seed, "tier": ctx.tier});
            let path = ctx.save_replay(&v);
            out.violations.push((key, "the same program is accepted in one declaration order and rejected in another".into(), path));
        }
    }
    out.classes = json!(classes);
}

// ---- C18(b): rustc-level diagnostics of the catalogue ---------------------------------------

pub fn fragment(rule: &str) -> &'static str {
    match rule {
        "no-instantiate" | "entry-points-no-instantiate" => "Missing instantiation message",
        "two-instantiate" | "two-migrate" => "More than one instantiation or migration message",
        "missing-new" => "Missing `new` method",
        "new-with-params" => "Parameters not allowed in `new` method",
        "interface-instantiate" | "interface-instantiate-after-helper" => "`instantiate` is not supported in interfaces",
        "interface-migrate" | "interface-migrate-after-helper" => "`migrate` is not supported in interfaces",
        "interface-generics" => "Generics on traits are not supported",
        "interface-no-error" => "Missing `Error` type",
        r if r.starts_with("reply-dup") || r.starts_with("reply-always") => "Duplicated reply handler",
        "reply-payload-arity" => "Mismatched quantity of method parameters",
        "reply-payload-type" => "Mismatched parameter in reply handlers",
        "data-not-first" | "data-on-error" | "data-on-always" => "Wrong usage of `#[sv::data]` attribute",
        "data-raw-instantiate" => "cannot be used in pair with `raw`",
        "param-after-raw-payload" | "param-between-data-and-raw-payload" => "Redundant payload parameter",
        "missing-payload" | "missing-payload-data-only" => "Missing payload parameter",
        "payload-without-args" => "Missing parameters for `sv::payload`",
        "payload-unknown-arg" => "Invalid payload parameter",
        "unknown-msg-arg" => "Invalid argument type, expected `resp`, `handlers`, `reply_on`",
        "unknown-msg-kind" | "unknown-msg-attr-kind" => "Invalid message type",
        "unknown-reply-on" => "expected one of `success`, `error` or `always`",
        "unknown-data-arg" => "Invalid data parameter",
        "unknown-feature" => "Invalid feature",
        "unknown-custom-arg" => "Invalid custom type",
        "unknown-messages-custom-flag" => "Invalid custom attribute",
        "unknown-override-kind" => "Invalid entry point",
        "messages-trailing-tokens" => "Unexpected tokens inside `sv::messages`",
        "duplicated-sv-msg" => "`sv::msg` is redefined",
        "sv-attr-on-self" | "sv-attr-on-ctx" => "Invalid usage of Sylvia attribute",
        "sv-attr-on-instantiate" => "`sv::attr` is not supported for `instantiate`",
        "sv-attr-on-migrate" => "`sv::attr` is not supported for `migrate`",
        "entry-points-too-few-types" | "entry-points-too-many-types" => "Missing concrete types",
        "pattern-argument" => "Expected argument name, pattern occurred",
        "duplicated-custom" => "`sv::custom` is redefined",
        "duplicated-error" => "`sv::error` is redefined",
        _ => "error",
    }
}

pub fn c18b_probes(ctx: &Ctx) -> Vec<Probe> {
    let mut out = vec![];
    let tapes = crate::draw_tapes(ctx.seed ^ 0x18b, crate::c18::RULES.len() * 4, 600);
    let mut ti = 0;
    for rule in crate::c18::RULES {
        // the first applicable base for this rule
        let mut inv = None;
        for _ in 0..4 {
            let t = tapes[ti % tapes.len()].clone();
            ti += 1;
            if let Some(i) = crate::c18::make_invalid(rule, t) {
                inv = Some(i);
                break;
            }
        }
        let Some(inv) = inv else { continue };
        let macro_line = match inv.which.as_str() {
            "contract" => "#[contract]".to_string(),
            "interface" => "#[interface]".to_string(),
            _ => {
                if inv.attr.is_empty() {
                    "#[entry_points]".to_string()
                } else {
                    format!("#[entry_points({})]", inv.attr)
                }
            }
        };
        let pre = "pub struct Ctr;\npub mod zz_if {}\npub mod ovr { use super::*; pub struct OvrMsg; }\n";
        let body = format!("{pre}{macro_line}\n{}", inv.item);
        let src = unit_source("sylvia", &body);
        let item_line = src.lines().position(|l| l == macro_line).map(|p| p + 1);
        out.push(Probe {
            unit: Unit { name: format!("rule_{}", rule.replace('-', "_")), source: src },
            want: Want::FailsWith(fragment(rule)),
            key: format!("diagnostic:{rule}"),
            what: format!("program breaking rule `{rule}` must be rejected with the documented diagnostic"),
            nontrivial: true,
            class: format!("rule:{rule}"),
            item_line,
        });
    }
    out
}

// ---- probe units of valid programs that must compile (C01 / C08 / C15) ----------------------

fn simple_program() -> Program {
    Program {
        id: "probe".into(),
        contract: Contract {
            generics: vec![],
            generic_names: vec![],
            rel_bounds: vec![],
            error: ErrTy::Std,
            custom_msg: false,
            custom_query: false,
            replies: false,
            overrides: vec![],
            msg_attrs: vec![],
            methods: vec![method("inst", Kind::Instantiate, vec![]), method("run", Kind::Exec, vec![arg("x", Ty::U32)])],
            entry_points: true,
            query_err_param: None,
            lifetime: false,
            flip_attr_order: false,
        },
        interfaces: vec![],
    }
}

/// C01: "any argument names" -- names that coincide with locals of the generated code.
pub fn c01_probes() -> Vec<Probe> {
    let opts = RenderOpts { sv: "sylvia".into(), glue: false };
    let mut out = vec![];
    for name in ["contract", "ctx", "msg", "deps", "env", "info", "field1", "value", "map", "val", "recv_msg_name", "msgs", "err_msg", "query", "payload", "id", "result"] {
        for kind in [Kind::Instantiate, Kind::Exec, Kind::Query, Kind::Sudo, Kind::Migrate] {
            let mut p = simple_program();
            let a = vec![arg(name, Ty::Str), arg("other", Ty::U32)];
            match kind {
                Kind::Instantiate => p.contract.methods[0].args = a,
                _ => p.contract.methods.push(method("probe_m", kind, a)),
            }
            // the context parameter of generated methods is called `ctx`: rename it for this probe
            let mut src = render::render_source(&p, &opts);
            if name == "ctx" {
                src = src.replace("ctx: ", "cx: ").replace("ctx.deps", "cx.deps").replace("&ctx.env", "&cx.env").replace("&ctx.info", "&cx.info").replace("ctx: String", "ctx: String");
                src = src.replace("cx: String", "ctx: String");
            }
            out.push(Probe {
                unit: Unit { name: format!("argname_{}_{}", name, kind.attr()), source: unit_source("sylvia", &src) },
                want: Want::Compiles,
                key: format!("arg-name:{name}:{}", if kind.is_enum() { "enum-message" } else { "struct-message" }),
                what: format!("a {} handler with an argument called `{name}` does not compile", kind.attr()),
                nontrivial: true,
                class: format!("arg-name:{}", if kind.is_enum() { "enum-message" } else { "struct-message" }),
                item_line: None,
            });
        }
    }
    out
}

/// C08: payload parameter names / generic payload types of reply handlers.
pub fn c08_probes() -> Vec<Probe> {
    let opts = RenderOpts { sv: "sylvia".into(), glue: false };
    let mut out = vec![];
    for name in ["env", "deps", "data", "id", "payload", "gas_used", "result", "events", "msg_responses", "sub_msg_resp", "error", "contract", "msg"] {
        for on in [ReplyOn::Success, ReplyOn::Error, ReplyOn::Always] {
            let mut p = generic_probe_program(&["T0"]);
            p.contract.methods.retain(|m| m.kind() != Some(Kind::Reply));
            p.contract.methods.push(Method {
                reply: Some(ReplySpec { handlers: vec!["on_x".into()], on, data: DataMode::Absent, data_ty: Ty::U32, payload: Payload::Typed(vec![arg(name, Ty::U32), arg("second", Ty::Str)]) }),
                ..method("x_handler", Kind::Reply, vec![])
            });
            // the handler's own leading parameter is called error/result: skip the clash the user cannot write
            if (on == ReplyOn::Error && name == "error") || (on == ReplyOn::Always && name == "result") {
                continue;
            }
            out.push(Probe {
                unit: Unit { name: format!("payloadname_{}_{}", name, on.attr()), source: unit_source("sylvia", &render::render_source(&p, &opts)) },
                want: Want::Compiles,
                key: format!("payload-name:{name}"),
                what: format!("a reply handler with a payload parameter called `{name}` does not compile"),
                nontrivial: true,
                class: "payload-parameter-name".into(),
                item_line: None,
            });
        }
    }
    // payload typed by a type parameter of the contract
    let mut p = generic_probe_program(&["T0"]);
    p.contract.methods.retain(|m| m.kind() != Some(Kind::Reply));
    p.contract.methods.push(Method {
        reply: Some(ReplySpec { handlers: vec!["on_x".into()], on: ReplyOn::Always, data: DataMode::Absent, data_ty: Ty::U32, payload: Payload::Typed(vec![arg("p", Ty::Param(0))]) }),
        ..method("x_handler", Kind::Reply, vec![])
    });
    out.push(Probe {
        unit: Unit { name: "payload_generic".into(), source: unit_source("sylvia", &render::render_source(&p, &opts)) },
        want: Want::Compiles,
        key: "payload-type:contract-parameter".into(),
        what: "a reply handler whose payload is typed by a type parameter of the contract does not compile".into(),
        nontrivial: true,
        class: "payload-generic-type".into(),
        item_line: None,
    });
    // handler names differing only by an underscore before a digit run share an id constant
    let mut p = generic_probe_program(&["T0"]);
    p.contract.methods.retain(|m| m.kind() != Some(Kind::Reply));
    for (m, h, on) in [("a_ok", "h1", ReplyOn::Success), ("b_err", "h_1", ReplyOn::Error)] {
        p.contract.methods.push(Method {
            reply: Some(ReplySpec { handlers: vec![h.into()], on, data: DataMode::Absent, data_ty: Ty::U32, payload: Payload::Raw }),
            ..method(m, Kind::Reply, vec![])
        });
    }
    let mut src = render::render_source(&p, &opts);
    // both names must have their own builder (and thereby their own id)
    src.push_str("\nfn vp_probe_(a: sylvia::cw_std::WasmMsg, b: sylvia::cw_std::WasmMsg) { let x = <sylvia::cw_std::WasmMsg as sv::SubMsgMethods<Empty>>::h1(a, Binary::default()).unwrap(); let y = <sylvia::cw_std::WasmMsg as sv::SubMsgMethods<Empty>>::h_1(b, Binary::default()).unwrap(); assert!(x.id != y.id); }\n");
    out.push(Probe {
        unit: Unit { name: "ids_h1_h_1".into(), source: unit_source("sylvia", &src) },
        want: Want::Compiles,
        key: "ids-collide:h1/h_1".into(),
        what: "distinct reply handler names `h1` and `h_1` do not get distinct ids".into(),
        nontrivial: true,
        class: "reply-id-near-collision".into(),
        item_line: None,
    });
    out
}

/// C15: where clauses relating two parameters.
pub fn c15_probes() -> Vec<Probe> {
    let opts = RenderOpts { sv: "sylvia".into(), glue: false };
    let mut out = vec![];
    // (a) `T0: Gen + Rel<T1>`: messages using T0 alone lose every bound on T0
    let mut p = generic_probe_program(&["T0", "T1"]);
    p.contract.replies = false;
    p.contract.methods.retain(|m| m.kind() != Some(Kind::Reply));
    p.contract.rel_bounds = vec![(0, 1)];
    out.push(Probe {
        unit: Unit { name: "relbound_joined".into(), source: unit_source("sylvia", &render::render_source(&p, &opts)) },
        want: Want::Compiles,
        key: "rel-bound:joined-predicate".into(),
        what: "generic contract with `where T0: Bound + Rel<T1>` does not compile (a message type using T0 alone loses T0's bounds)".into(),
        nontrivial: true,
        class: "two-parameter-bound:joined".into(),
        item_line: None,
    });
    // (b) separate predicates for the same parameter: `T0: Gen, T0: Rel<T1>`
    let mut src = render::render_source(&p, &opts);
    src = src.replace("T0: Gen + Rel<T1>", "T0: Gen, T0: Rel<T1>");
    out.push(Probe {
        unit: Unit { name: "relbound_separate".into(), source: unit_source("sylvia", &src) },
        want: Want::Compiles,
        key: "rel-bound:separate-predicates".into(),
        what: "generic contract with `where T0: Bound, T0: Rel<T1>` does not compile (two predicates on one parameter)".into(),
        nontrivial: true,
        class: "two-parameter-bound:separate".into(),
        item_line: None,
    });
    // control: single-parameter bounds only
    let mut p2 = p.clone();
    p2.contract.rel_bounds = vec![];
    out.push(Probe {
        unit: Unit { name: "relbound_none".into(), source: unit_source("sylvia", &render::render_source(&p2, &opts)) },
        want: Want::Compiles,
        key: "rel-bound:control".into(),
        what: "generic two-parameter contract with single-parameter bounds does not compile".into(),
        nontrivial: true,
        class: "two-parameter-bound:control".into(),
        item_line: None,
    });
    out
}

/// C16: explicit `resp=` naming an associated type of an interface.
pub fn c16_probes() -> Vec<Probe> {
    let opts = RenderOpts { sv: "sylvia".into(), glue: false };
    let mut out = vec![];
    for explicit in [true, false] {
        let mut p = simple_program();
        let mut q = method("peek", Kind::Query, vec![]);
        q.resp = RespTy::Param(0);
        q.resp_explicit = explicit;
        q.err = ErrTy::Custom;
        p.interfaces.push(Interface {
            module: "if_a".into(),
            trait_name: "IfA".into(),
            explicit_as: false,
            assoc: vec![Ty::Rec],
            assoc_names: vec![],
            alias: None,
            style: CustomStyle::Plain,
            methods: vec![q],
            msg_attrs: vec![],
        });
        out.push(Probe {
            unit: Unit { name: format!("resp_assoc_{}", if explicit { "explicit" } else { "inferred" }), source: unit_source("sylvia", &render::render_source(&p, &opts)) },
            want: Want::Compiles,
            key: format!("resp-assoc:{}", if explicit { "explicit" } else { "inferred" }),
            what: format!("an interface query whose response is an associated type ({}) does not compile", if explicit { "named with resp=A0 behind a result alias" } else { "read from Result<Self::A0, _>" }),
            nontrivial: true,
            class: "response:associated-type".into(),
            item_line: None,
        });
    }
    out
}
