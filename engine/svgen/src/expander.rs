//! Client of the in-process expansion server (engine E1).

use crate::corpus::{target_dir, REPO, VERIF};
use serde_json::Value;
use std::io::{BufRead, BufReader, Write};
use std::path::PathBuf;
use std::process::{Child, ChildStdin, ChildStdout, Command, Stdio};

#[derive(Debug, Clone, PartialEq)]
pub enum Expansion {
    /// no error diagnostic; the expanded token stream as text
    Clean(String),
    /// >= 1 error diagnostic emitted through proc_macro_error
    Dirty,
    /// the macro implementation panicked
    Panic(String),
    /// request could not be lexed (generator bug)
    BadRequest(String),
}

impl Expansion {
    /// Accepted = Clean and not containing a `compile_error!` (syn errors are turned into
    /// `compile_error!` tokens by the macro front-ends).
    pub fn accepted(&self) -> bool {
        match self {
            Expansion::Clean(s) => !s.contains("compile_error !") && !s.contains("compile_error!"),
            _ => false,
        }
    }
}

fn esc(s: &str) -> String {
    s.replace('\\', "\\\\").replace('\n', "\\n").replace('\t', "\\t").replace('\r', "\\r")
}
fn unesc(s: &str) -> String {
    let mut out = String::with_capacity(s.len());
    let mut it = s.chars();
    while let Some(c) = it.next() {
        if c == '\\' {
            match it.next() {
                Some('n') => out.push('\n'),
                Some('t') => out.push('\t'),
                Some('r') => out.push('\r'),
                Some('\\') => out.push('\\'),
                Some(o) => {
                    out.push('\\');
                    out.push(o)
                }
                None => out.push('\\'),
            }
        } else {
            out.push(c)
        }
    }
    out
}

/// Build the sylvia-derive test binary with the hook enabled (cargo's freshness check
/// makes this rebuild from /repo's current working tree).
pub fn build_expander() -> Result<PathBuf, String> {
    let out = Command::new("cargo")
        .current_dir(REPO)
        .args(["test", "-p", "sylvia-derive", "--features", "verif-hook,mt,cosmwasm_1_2", "--no-run", "--offline", "--message-format=json", "--target-dir"])
        .arg(target_dir("expander"))
        .env("SYLVIA_VERIF_HARNESS", format!("{VERIF}/engine/hook/expand_server.rs"))
        .env("CARGO_NET_OFFLINE", "true")
        .env("RUSTFLAGS", "-Awarnings")
        .output()
        .map_err(|e| e.to_string())?;
    let mut exe = None;
    for line in String::from_utf8_lossy(&out.stdout).lines() {
        let Ok(v) = serde_json::from_str::<Value>(line) else { continue };
        if v["reason"] == "compiler-artifact" && v["profile"]["test"] == true && v["target"]["name"] == "sylvia_derive" {
            if let Some(e) = v["executable"].as_str() {
                exe = Some(PathBuf::from(e));
            }
        }
    }
    if !out.status.success() {
        return Err(format!("expander build failed:\n{}", String::from_utf8_lossy(&out.stderr).lines().rev().take(25).collect::<Vec<_>>().into_iter().rev().collect::<Vec<_>>().join("\n")));
    }
    exe.ok_or_else(|| "expander test binary not found in cargo output".to_string())
}

pub struct Expander {
    child: Child,
    stdin: ChildStdin,
    stdout: BufReader<ChildStdout>,
    pub requests: u64,
}

fn libdir() -> String {
    let out = Command::new("rustc").args(["--print", "target-libdir"]).output().expect("rustc");
    String::from_utf8_lossy(&out.stdout).trim().to_string()
}

impl Expander {
    pub fn spawn(exe: &PathBuf) -> Result<Self, String> {
        let mut child = Command::new(exe)
            .args(["verif_hook::verif_expand_server", "--exact", "--nocapture", "--test-threads=1"])
            .env("LD_LIBRARY_PATH", libdir())
            .env("RUST_BACKTRACE", "0")
            .stdin(Stdio::piped())
            .stdout(Stdio::piped())
            .stderr(Stdio::null())
            .spawn()
            .map_err(|e| e.to_string())?;
        let stdin = child.stdin.take().unwrap();
        let mut stdout = BufReader::new(child.stdout.take().unwrap());
        // wait for READY
        let mut line = String::new();
        loop {
            line.clear();
            let n = stdout.read_line(&mut line).map_err(|e| e.to_string())?;
            if n == 0 {
                return Err("expansion server exited before READY".into());
            }
            if line.contains("@@READY") {
                break;
            }
        }
        Ok(Expander { child, stdin, stdout, requests: 0 })
    }

    pub fn expand(&mut self, which: &str, attr: &str, item: &str) -> Result<Expansion, String> {
        self.requests += 1;
        writeln!(self.stdin, "{}\t{}\t{}", which, esc(attr), esc(item)).map_err(|e| e.to_string())?;
        self.stdin.flush().map_err(|e| e.to_string())?;
        let mut line = String::new();
        loop {
            line.clear();
            let n = self.stdout.read_line(&mut line).map_err(|e| e.to_string())?;
            if n == 0 {
                return Err("expansion server died".into());
            }
            if let Some(pos) = line.find("@@") {
                let body = line[pos + 2..].trim_end_matches('\n');
                return Ok(match body.chars().next() {
                    Some('C') => Expansion::Clean(unesc(body[1..].trim_start())),
                    Some('D') => Expansion::Dirty,
                    Some('P') => Expansion::Panic(unesc(body[1..].trim_start())),
                    Some('E') => Expansion::BadRequest(unesc(body[1..].trim_start())),
                    _ => return Err(format!("bad reply: {body}")),
                });
            }
        }
    }
}

impl Drop for Expander {
    fn drop(&mut self) {
        let _ = writeln!(self.stdin, "QUIT");
        let _ = self.stdin.flush();
        let _ = self.child.kill();
        let _ = self.child.wait();
    }
}
