//! Program generators (valid by construction).  All choices come from a `Tape`.

use crate::names::*;
use svmodel::tape::Tape;
use svmodel::*;

#[derive(Clone, Debug)]
pub struct GenOpts {
    /// allow S2-shaped method names (C03/C05/C10/C12); otherwise S1 only
    pub s2_names: bool,
    pub max_interfaces: usize,
    pub allow_generics: bool,
    pub allow_custom: bool,
    pub allow_attrs: bool,
    pub replies: bool,
    /// legacy reply handlers / overridden entry points in fam_msg programs
    pub legacy_reply: bool,
    pub overrides: bool,
    /// at most this many legacy reply handlers per program (2 = also the "first declared wins" shape)
    pub max_legacy_reply: usize,
    /// reply family: rename one typed payload parameter to the k-th local-name candidate
    pub force_local: Option<usize>,
    /// forward `serde(alias = ..)` through `sv::attr` (C17 only: aliases are invisible to the routing lists)
    pub aliases: bool,
}

impl Default for GenOpts {
    fn default() -> Self {
        GenOpts {
            s2_names: true,
            max_interfaces: 3,
            allow_generics: true,
            allow_custom: true,
            allow_attrs: true,
            replies: false,
            legacy_reply: true,
            max_legacy_reply: 2,
            force_local: None,
            overrides: true,
            aliases: false,
        }
    }
}

const CONC: [Ty; 3] = [Ty::Rec, Ty::Choice, Ty::MyMsg];

pub fn gen_ty(t: &mut Tape, nparams: usize, assoc: bool, depth: usize) -> Ty {
    // leaf or wrapper
    let wrap = if depth >= 2 { 0 } else { t.weighted(&[68, 8, 8, 5, 4, 3, 4]) };
    match wrap {
        0 => {
            let use_param = nparams > 0 && t.chance(30);
            if use_param {
                let i = t.pick(nparams);
                if assoc {
                    Ty::Assoc(i)
                } else {
                    Ty::Param(i)
                }
            } else {
                match t.pick(12) {
                    0 => Ty::U32,
                    1 => Ty::Str,
                    2 => Ty::U64,
                    3 => Ty::Bool,
                    4 => Ty::Uint128,
                    5 => Ty::Binary,
                    6 => Ty::Addr,
                    7 => Ty::Coin,
                    8 => Ty::Rec,
                    9 => Ty::Choice,
                    10 => Ty::U8,
                    _ => Ty::I32,
                }
            }
        }
        1 => {
            let inner = gen_ty(t, nparams, assoc, depth + 1);
            if matches!(inner, Ty::Opt(_)) {
                inner
            } else {
                Ty::Opt(Box::new(inner))
            }
        }
        2 => Ty::Vec(Box::new(gen_ty(t, nparams, assoc, depth + 1))),
        3 => Ty::Tup2(
            Box::new(gen_ty(t, nparams, assoc, depth + 1)),
            Box::new(gen_ty(t, nparams, assoc, depth + 1)),
        ),
        4 => Ty::Map(Box::new(gen_ty(t, nparams, assoc, depth + 1))),
        5 => Ty::Arr2(Box::new(gen_ty(t, nparams, assoc, depth + 1))),
        _ => Ty::Boxed(Box::new(gen_ty(t, nparams, assoc, depth + 1))),
    }
}

fn has_default(ty: &Ty) -> bool {
    // serde's derive adds `T: Default` for a defaulted field mentioning a type parameter
    let mut used = vec![];
    ty.params_used(&mut used);
    if !used.is_empty() {
        return false;
    }
    matches!(
        ty,
        Ty::U8 | Ty::U32 | Ty::U64 | Ty::I32 | Ty::Bool | Ty::Str | Ty::Uint128 | Ty::Binary
            | Ty::Vec(_) | Ty::Opt(_) | Ty::Map(_)
    )
}

pub struct Markers(pub u32);
impl Markers {
    pub fn next(&mut self) -> u32 {
        self.0 += 1;
        self.0
    }
}

pub fn gen_args(t: &mut Tape, nparams: usize, assoc: bool, opts: &GenOpts, mk: &mut Markers) -> Vec<Arg> {
    // mostly 0..4 arguments, with a tail of wide handlers (9..13 arguments, mostly of one
    // type so that position mix-ups stay type-correct)
    let wide = t.chance(6);
    let n = if wide { 9 + t.pick(5) } else { t.weighted(&[15, 30, 30, 15, 10]) };
    let mut args: Vec<Arg> = vec![];
    let same_ty = n >= 2 && (t.chance(35) || wide);
    for i in 0..n {
        let used: Vec<String> = args.iter().map(|a| a.name.clone()).collect();
        let name = arg_name(t, &used);
        let ty = if same_ty && i > 0 { args[0].ty.clone() } else { gen_ty(t, nparams, assoc, 0) };
        let mut attrs = vec![];
        if opts.allow_attrs {
            if has_default(&ty) && t.chance(12) {
                attrs.push(ArgAttr::SerdeDefault);
            }
            if t.chance(8) {
                attrs.push(ArgAttr::Marker(mk.next()));
            }
        }
        args.push(Arg { name, ty, attrs });
    }
    args
}

/// `ab_cd` -> `abcd`, `abcd` -> `a_bcd`: only between two letters, so shape S1 is kept.
fn underscore_twin(n: &str) -> String {
    let b = n.as_bytes();
    for i in 1..b.len().saturating_sub(1) {
        if b[i] == b'_' && b[i - 1].is_ascii_lowercase() && b[i + 1].is_ascii_lowercase() {
            return format!("{}{}", &n[..i], &n[i + 1..]);
        }
    }
    for i in 1..b.len() {
        if b[i - 1].is_ascii_lowercase() && b[i].is_ascii_lowercase() {
            return format!("{}_{}", &n[..i], &n[i..]);
        }
    }
    n.to_string()
}

/// `send` -> `tend`: the next letter of the alphabet in first position (a leading letter only).
fn first_letter_twin(n: &str) -> String {
    match n.as_bytes().first() {
        Some(c) if c.is_ascii_lowercase() => {
            let next = if *c == b'z' { b'a' } else { c + 1 };
            format!("{}{}", next as char, &n[1..])
        }
        _ => n.to_string(),
    }
}

/// Registry of names already used, so that (a) a part never defines two methods of the
/// same name, (b) parts never collide on a wire name of one kind unless asked to, while
/// (c) sharing a name between *different* kinds of different parts is frequent.
#[derive(Default)]
pub struct NameReg {
    /// (part, method name)
    methods: Vec<(usize, String)>,
    /// (kind, variant ident) across all parts
    used: Vec<(Kind, String)>,
    all: Vec<String>,
    /// argument lists of earlier methods by name (only lists free of type parameters)
    pub shapes: Vec<(String, Vec<Arg>)>,
}

impl NameReg {
    fn ok(&self, part: usize, kind: Kind, cand: &str) -> bool {
        if RESERVED.contains(&cand) {
            return false;
        }
        let v = variant_ident(cand);
        let h = helper_ident(cand);
        if v.is_empty() || h.is_empty() || RESERVED.contains(&h.as_str()) {
            return false;
        }
        if self.methods.iter().any(|(p, m)| *p == part && (m == cand || helper_ident(m) == h)) {
            return false;
        }
        !self.used.iter().any(|(k, u)| *k == kind && *u == v)
    }
    pub fn fresh(&mut self, t: &mut Tape, part: usize, kind: Kind, s2: bool) -> String {
        let mut chosen = None;
        for attempt in 0..12 {
            let cand = if attempt < 3 && !self.all.is_empty() && t.chance(30) {
                self.all[t.pick(self.all.len())].clone()
            } else if attempt < 3 && !self.all.is_empty() && t.chance(12) {
                // a distinct name that differs from an earlier one only by an underscore (`setup` / `set_up`)
                underscore_twin(&self.all[t.pick(self.all.len())])
            } else if attempt < 3 && !self.all.is_empty() && t.chance(8) {
                // ... or only in its first letter (`send` / `lend`)
                first_letter_twin(&self.all[t.pick(self.all.len())])
            } else if s2 {
                name_s2(t)
            } else {
                name_s1(t)
            };
            if self.ok(part, kind, &cand) {
                chosen = Some(cand);
                break;
            }
        }
        let cand = chosen.unwrap_or_else(|| {
            let mut i = self.methods.len();
            loop {
                // must stay inside shape S1 (a word ending in digits): families whose oracle relies
                // on "wire name == method name" draw from here too
                let c = format!("m{i}");
                if self.ok(part, kind, &c) {
                    return c;
                }
                i += 1;
            }
        });
        self.methods.push((part, cand.clone()));
        self.used.push((kind, variant_ident(&cand)));
        self.all.push(cand.clone());
        cand
    }
}

fn gen_resp(t: &mut Tape, nparams: usize) -> RespTy {
    if nparams > 0 && t.chance(25) {
        RespTy::Param(t.pick(nparams))
    } else {
        match t.weighted(&[30, 25, 25, 12, 8]) {
            0 => RespTy::EchoA,
            1 => RespTy::EchoB,
            2 => RespTy::EchoC,
            3 => RespTy::Bin,
            _ => RespTy::Text,
        }
    }
}

#[allow(clippy::too_many_arguments)]
fn gen_handler(
    t: &mut Tape,
    reg: &mut NameReg,
    part: usize,
    kind: Kind,
    nparams: usize,
    assoc: bool,
    custom_err: bool,
    opts: &GenOpts,
    mk: &mut Markers,
) -> Method {
    let name = reg.fresh(t, part, kind, opts.s2_names);
    // a name shared with a handler of another kind often shares its argument shape too
    let shared = reg.shapes.iter().find(|(n, _)| *n == name).map(|(_, a)| a.clone());
    let args = match shared {
        Some(a) if t.chance(60) => a,
        _ => gen_args(t, nparams, assoc, opts, mk),
    };
    {
        let mut used = vec![];
        for a in &args {
            a.ty.params_used(&mut used);
        }
        if used.is_empty() {
            let plain: Vec<Arg> = args.iter().map(|a| Arg { attrs: vec![], ..a.clone() }).collect();
            reg.shapes.push((name.clone(), plain));
        }
    }
    let err = if custom_err && t.chance(50) { ErrTy::Custom } else { ErrTy::Std };
    let resp = gen_resp(t, nparams);
    // `resp=<associated type>` in an interface does not compile (recorded finding, probed by C16)
    let resp_explicit = kind == Kind::Query && t.chance(30) && !(assoc && matches!(resp, RespTy::Param(_))) && !matches!(resp, RespTy::Bin | RespTy::Text);
    let mut variant_attrs = vec![];
    if opts.allow_attrs && kind.is_enum() && t.chance(10) {
        variant_attrs.push(VariantAttr::Marker(mk.next()));
    }
    if opts.aliases && kind.is_enum() && t.chance(40) {
        variant_attrs.push(VariantAttr::SerdeAlias(format!("al{}_{}", part, name)));
    }
    Method { name, role: Role::Handler(kind), args, err, resp, resp_explicit, variant_attrs, reply: None }
}

fn gen_msg_attrs(t: &mut Tape, kinds: &[Kind], opts: &GenOpts, mk: &mut Markers) -> Vec<(Kind, MsgAttr)> {
    let mut out = vec![];
    if !opts.allow_attrs {
        return out;
    }
    let n = t.weighted(&[70, 20, 10]);
    for _ in 0..n {
        let k = kinds[t.pick(kinds.len())];
        out.push((k, MsgAttr::Marker(mk.next())));
    }
    out
}

/// Family `fam_msg`: contracts with 0..3 interfaces and all five non-reply kinds.
pub fn gen_msg_program(id: &str, tape: Vec<u32>, opts: &GenOpts) -> Program {
    let mut t = Tape::new(tape);
    let t = &mut t;
    let mut mk = Markers(0);
    let mut reg = NameReg::default();

    let ngen = if opts.allow_generics { t.weighted(&[55, 25, 15, 5]) } else { 0 };
    let generics: Vec<Ty> = (0..ngen).map(|_| CONC[t.pick(CONC.len())].clone()).collect();
    // bounds relating two parameters are exercised by the C15 check only (see DESIGN §C15)
    let rel_bounds: Vec<(usize, usize)> = vec![];
    let error = if t.chance(55) { ErrTy::Custom } else { ErrTy::Std };
    let (custom_msg, custom_query) = if opts.allow_custom {
        (t.chance(35), t.chance(35))
    } else {
        (false, false)
    };

    // contract methods
    let mut methods = vec![];
    let custom_err = error == ErrTy::Custom;
    let mut inst = gen_handler(t, &mut reg, 0, Kind::Instantiate, ngen, false, custom_err, opts, &mut mk);
    inst.variant_attrs.clear();
    methods.push(inst);
    for kind in [Kind::Exec, Kind::Query, Kind::Sudo] {
        // occasionally a long list of handlers of one kind (>= 10 variants)
        let n = if t.chance(4) { 10 + t.pick(4) } else { t.weighted(&[15, 35, 30, 20]) };
        for _ in 0..n {
            methods.push(gen_handler(t, &mut reg, 0, kind, ngen, false, custom_err, opts, &mut mk));
        }
    }
    if t.chance(50) {
        let mut m = gen_handler(t, &mut reg, 0, Kind::Migrate, ngen, false, custom_err, opts, &mut mk);
        m.variant_attrs.clear();
        methods.push(m);
    }
    // sibling with identical signature (wrong-sibling detection)
    if t.chance(30) {
        let cands: Vec<usize> =
            methods.iter().enumerate().filter(|(_, m)| m.kind().map(|k| k.is_enum()).unwrap_or(false)).map(|(i, _)| i).collect();
        if !cands.is_empty() {
            let src = methods[cands[t.pick(cands.len())]].clone();
            let kind = src.kind().unwrap();
            let mut sib = src.clone();
            sib.name = reg.fresh(t, 0, kind, opts.s2_names);
            sib.variant_attrs.clear();
            for a in sib.args.iter_mut() {
                a.attrs.retain(|x| !matches!(x, ArgAttr::Marker(_)));
            }
            methods.push(sib);
        }
    }
    // shuffle methods (source order is arbitrary)
    for i in (1..methods.len()).rev() {
        let j = t.pick(i + 1);
        methods.swap(i, j);
    }

    let nif = t.weighted(&[25, 35, 25, 15]).min(opts.max_interfaces);
    let mods = ["if_a", "if_b", "if_c"];
    let traits = ["IfA", "IfB", "IfC"];
    let mut interfaces = vec![];
    for i in 0..nif {
        let nassoc = t.weighted(&[55, 30, 15]);
        let mut assoc: Vec<Ty> = (0..nassoc).map(|_| CONC[t.pick(CONC.len())].clone()).collect();
        if nassoc >= 2 && assoc[0] == assoc[1] {
            // two associated types are instantiated differently (an argument swap must not type-check)
            let k = CONC.iter().position(|c| *c == assoc[0]).unwrap_or(0);
            assoc[1] = CONC[(k + 1) % CONC.len()].clone();
        }
        let style = match t.weighted(&[50, 25, 25]) {
            0 => CustomStyle::Plain,
            1 => CustomStyle::Assoc,
            _ => CustomStyle::Fixed,
        };
        let mut ms = vec![];
        for kind in [Kind::Exec, Kind::Query, Kind::Sudo] {
            let n = t.weighted(&[30, 40, 20, 10]);
            for _ in 0..n {
                ms.push(gen_handler(t, &mut reg, i + 1, kind, nassoc, true, true, opts, &mut mk));
            }
        }
        for k in (1..ms.len()).rev() {
            let j = t.pick(k + 1);
            ms.swap(k, j);
        }
        // with two associated types: often let one kind use them in the order opposite to their
        // declaration (first use A1, then A0), the shape in which parameter order matters
        if nassoc >= 2 && t.chance(60) {
            // two methods of one kind: the earlier one starts with A1, the later one with A0
            // (so the first-use order of that kind flips when the methods are reordered);
            // without such a pair, one method takes (A1, A0)
            let pair = (0..ms.len()).find_map(|i| ((i + 1)..ms.len()).find(|j| ms[*j].kind() == ms[i].kind()).map(|j| (i, j)));
            let fresh = |m: &Method| !m.args.iter().any(|a| a.name == "rev_b" || a.name == "rev_a");
            match pair {
                Some((i, j)) if fresh(&ms[i]) && fresh(&ms[j]) => {
                    ms[i].args.insert(0, Arg { name: "rev_b".into(), ty: Ty::Assoc(1), attrs: vec![] });
                    ms[j].args.insert(0, Arg { name: "rev_a".into(), ty: Ty::Assoc(0), attrs: vec![] });
                }
                _ => {
                    if let Some(m) = ms.first_mut() {
                        if fresh(m) {
                            m.args.insert(0, Arg { name: "rev_a".into(), ty: Ty::Assoc(0), attrs: vec![] });
                            m.args.insert(0, Arg { name: "rev_b".into(), ty: Ty::Assoc(1), attrs: vec![] });
                        }
                    }
                }
            }
        }
        let explicit_as = t.chance(35);
        let trait_name = if explicit_as && t.chance(60) { format!("{}Api", traits[i]) } else { traits[i].to_string() };
        let explicit_as = explicit_as || trait_name != traits[i];
        let msg_attrs = gen_msg_attrs(t, &Kind::ENUMS, opts, &mut mk);
        interfaces.push(Interface {
            module: mods[i].to_string(),
            trait_name,
            explicit_as,
            alias: None,
            assoc_names: {
                // a third of the interfaces name their associated types conventionally instead of A0, A1..
                const POOL: &[&str] = &["Item", "Param", "Data", "T", "K", "V", "Msg", "Value"];
                if !assoc.is_empty() && t.chance(33) {
                    let start = t.pick(POOL.len());
                    (0..assoc.len()).map(|k| POOL[(start + k) % POOL.len()].to_string()).collect()
                } else {
                    vec![]
                }
            },
            assoc,
            style,
            methods: ms,
            msg_attrs,
        });
    }
    // two interfaces whose traits have the same identifier in different modules (as with
    // `cw1::counter::Counter` / `cw2::counter::Counter`): told apart by their `as` names only
    if interfaces.len() >= 2 && t.chance(30) {
        for (k, i) in interfaces.iter_mut().take(2).enumerate() {
            i.trait_name = "Shared".to_string();
            i.explicit_as = true;
            i.alias = Some(format!("Shared{}", ["A", "B"][k]));
        }
    }
    // legacy reply handlers (no `sv::features(replies)`): the entry point hands the raw Reply
    // to the first declared one
    if opts.legacy_reply && t.chance(25) {
        let n = (1 + t.pick(2)).min(opts.max_legacy_reply.max(1));
        for k in 0..n {
            let name = reg.fresh(t, 0, Kind::Reply, false);
            let pos = t.pick(methods.len() + 1);
            let _ = k;
            methods.insert(
                pos,
                Method {
                    name,
                    role: Role::Handler(Kind::Reply),
                    args: vec![],
                    err: if custom_err { ErrTy::Custom } else { ErrTy::Std },
                    resp: RespTy::EchoA,
                    resp_explicit: false,
                    variant_attrs: vec![],
                    reply: Some(ReplySpec { handlers: vec![], on: ReplyOn::Always, data: DataMode::Absent, data_ty: Ty::U32, payload: Payload::Raw }),
                },
            );
        }
    }
    // overridden entry points
    let mut overrides = vec![];
    if opts.overrides && t.chance(25) {
        let mut cands = vec![Kind::Instantiate, Kind::Exec, Kind::Query, Kind::Sudo];
        if methods.iter().any(|m| m.kind() == Some(Kind::Migrate)) {
            cands.push(Kind::Migrate);
        }
        if methods.iter().any(|m| m.kind() == Some(Kind::Reply)) {
            cands.push(Kind::Reply);
        }
        let n = 1 + t.pick(2);
        for _ in 0..n {
            let k = cands[t.pick(cands.len())];
            if !overrides.contains(&k) {
                overrides.push(k);
            }
        }
    }
    // a third of the overriding contracts are bare: one overridden kind, no interfaces, and the
    // own handlers of exec / sudo dropped half of the time each -- the generated entry point of
    // such a kind has nothing of its own to dispatch to
    if !overrides.is_empty() && t.chance(50) {
        overrides.truncate(1);
        interfaces.clear();
        // most often it is `migrate` that is overridden alone (added when the contract has none)
        if t.chance(60) {
            if !methods.iter().any(|m| m.kind() == Some(Kind::Migrate)) {
                let name = reg.fresh(t, 0, Kind::Migrate, false);
                methods.push(Method {
                    name,
                    role: Role::Handler(Kind::Migrate),
                    args: vec![],
                    err: if custom_err { ErrTy::Custom } else { ErrTy::Std },
                    resp: RespTy::EchoA,
                    resp_explicit: false,
                    variant_attrs: vec![],
                    reply: None,
                });
            }
            overrides = vec![Kind::Migrate];
        }
        for k in [Kind::Sudo, Kind::Exec] {
            if !overrides.contains(&k) && t.chance(if k == Kind::Sudo { 70 } else { 40 }) {
                methods.retain(|m| m.kind() != Some(k));
            }
        }
    }
    let mut kinds_present = vec![Kind::Instantiate, Kind::Exec, Kind::Query, Kind::Sudo];
    if methods.iter().any(|m| m.kind() == Some(Kind::Migrate)) {
        kinds_present.push(Kind::Migrate);
    }
    let msg_attrs = gen_msg_attrs(t, &kinds_present, opts, &mut mk);
    // a fifth of the generic contracts spell the error type of their StdError-returning query
    // handlers `GenErr<Ti>`: Ti then occurs in the error position of a query's return type only
    let query_err_param = if !generics.is_empty() && t.chance(20) { Some(t.pick(generics.len())) } else { None };

    Program {
        id: id.to_string(),
        contract: Contract {
            generics,
            generic_names: vec![],
            rel_bounds,
            error,
            custom_msg,
            custom_query,
            replies: false,
            overrides,
            msg_attrs,
            methods,
            entry_points: true,
            query_err_param,
            lifetime: false,
            flip_attr_order: false,
        },
        interfaces,
    }
}

// ---------------------------------------------------------------------------------------
// Family `fam_reply`: contracts with `#[sv::features(replies)]` and a reply-handler table.

/// Identifiers used as locals inside the generated sub-message builders / reply dispatcher.
pub const LOCALS: &[&str] = &["gas_limit", "env", "deps", "id", "msg", "reply_on", "gas_used", "events", "msg_responses", "contract", "info", "sub_msg_resp", "self_"];

fn gen_payload(t: &mut Tape, nparams: usize, opts: &GenOpts, mk: &mut Markers) -> Payload {
    if t.chance(30) {
        return Payload::Raw;
    }
    let n = 1 + t.weighted(&[45, 35, 20]);
    let mut args: Vec<Arg> = vec![];
    for _ in 0..n {
        // `data` / `error` / `result` / `payload` are the names of the handler's own leading
        // parameters; names of locals of the generated builder / dispatcher are deliberately
        // frequent (they must not be shadowed)
        let used: Vec<String> = args.iter().map(|a| a.name.clone()).chain(["data", "error", "result", "payload"].iter().map(|s| s.to_string())).collect();
        if t.chance(25) {
            let cand = LOCALS[t.pick(LOCALS.len())].to_string();
            if !used.contains(&cand) {
                let ty = gen_ty(t, nparams, false, 0);
                args.push(Arg { name: cand, ty, attrs: vec![] });
                continue;
            }
        }
        let name = arg_name(t, &used);
        let ty = gen_ty(t, nparams, false, 0);
        args.push(Arg { name, ty, attrs: vec![] });
    }
    let _ = (opts, mk);
    Payload::Typed(args)
}

/// `order_bias`: when true, a success handler carrying `#[sv::data]` may be declared
/// *after* the error handler of the same name (the order sensitivity of C14/F4).
pub fn gen_reply_program(id: &str, tape: Vec<u32>, opts: &GenOpts, any_order: bool) -> Program {
    let mut t = Tape::new(tape);
    let t = &mut t;
    let mut mk = Markers(0);
    let mut reg = NameReg::default();
    let ngen = if opts.allow_generics { t.weighted(&[65, 25, 10]) } else { 0 };
    let generics: Vec<Ty> = (0..ngen).map(|_| CONC[t.pick(CONC.len())].clone()).collect();
    let error = if t.chance(55) { ErrTy::Custom } else { ErrTy::Std };
    let custom_err = error == ErrTy::Custom;
    let (custom_msg, custom_query) = if opts.allow_custom { (t.chance(30), t.chance(30)) } else { (false, false) };
    let plain = GenOpts { allow_attrs: false, ..opts.clone() };
    let mut methods = vec![];
    methods.push(gen_handler(t, &mut reg, 0, Kind::Instantiate, ngen, false, custom_err, &plain, &mut mk));
    if t.chance(50) {
        methods.push(gen_handler(t, &mut reg, 0, Kind::Exec, ngen, false, custom_err, &plain, &mut mk));
    }
    // handler names
    let nnames = 1 + t.weighted(&[40, 40, 20]);
    let mut names: Vec<String> = vec![];
    while names.len() < nnames {
        let n = name_s1(t);
        let upper = convert_case::Casing::to_case(&n, convert_case::Case::UpperSnake);
        if RESERVED.contains(&n.as_str())
            || names.iter().any(|o| convert_case::Casing::to_case(o, convert_case::Case::UpperSnake) == upper)
            || methods.iter().any(|m: &Method| m.name == n)
        {
            continue;
        }
        names.push(n);
    }
    // per name: coverage pattern
    // 0 success only, 1 error only, 2 both via two methods, 3 always
    let mut reply_methods: Vec<Method> = vec![];
    let mut used_method_names: Vec<String> = methods.iter().map(|m| m.name.clone()).collect();
    let mut fresh_method = |t: &mut Tape, base: &str, sfx: &str, as_handler: bool, used: &mut Vec<String>| -> String {
        if as_handler && !used.contains(&base.to_string()) {
            used.push(base.to_string());
            return base.to_string();
        }
        let mut i = 0;
        loop {
            let cand = if i == 0 { format!("{base}_{sfx}") } else { format!("{base}_{sfx}{i}") };
            if !used.contains(&cand) && !RESERVED.contains(&cand.as_str()) {
                used.push(cand.clone());
                return cand;
            }
            i += 1;
            let _ = &t;
        }
    };
    let mut i = 0;
    while i < names.len() {
        let pattern = t.weighted(&[25, 20, 35, 20]);
        // share this method set with the next name too?
        let share = i + 1 < names.len() && t.chance(25);
        let hnames: Vec<String> = if share { vec![names[i].clone(), names[i + 1].clone()] } else { vec![names[i].clone()] };
        // payload types never mention the contract's type parameters: the generated
        // `SubMsgMethods` trait is not generic over them (recorded finding, probed by C08)
        let payload = gen_payload(t, 0, opts, &mut mk);
        let data = DataMode::ALL[t.weighted(&[25, 12, 12, 15, 12, 12, 12])];
        // a mandatory typed data parameter may itself be an Option (that is just its JSON type:
        // `null` decodes to None, absent data is still an error)
        let data_ty = match t.pick(7) {
            // a byte string is a JSON type like any other: base64 text inside the envelope
            6 => Ty::Binary,
            0 => Ty::Rec,
            1 => Ty::U32,
            2 => Ty::Str,
            3 => Ty::Choice,
            4 if data == DataMode::Typed => Ty::Opt(Box::new(Ty::U32)),
            5 if data == DataMode::Typed => Ty::Opt(Box::new(Ty::Rec)),
            4 => Ty::U32,
            _ => Ty::Rec,
        };
        let mut mkm = |t: &mut Tape, on: ReplyOn, sfx: &str, used: &mut Vec<String>| -> Method {
            // implicit handler name (= method name) only possible for a single name and one method
            let implicit = hnames.len() == 1 && t.chance(40);
            let name = fresh_method(t, &hnames[0], sfx, implicit, used);
            let handlers = if name == hnames[0] && hnames.len() == 1 { vec![] } else { hnames.clone() };
            Method {
                name,
                role: Role::Handler(Kind::Reply),
                args: vec![],
                // dispatch_reply returns the handler's result unconverted: the error type of a
                // reply handler has to be the contract's error type
                err: if custom_err { ErrTy::Custom } else { ErrTy::Std },
                resp: RespTy::EchoA,
                resp_explicit: false,
                variant_attrs: vec![],
                reply: Some(ReplySpec {
                    handlers,
                    on,
                    data: if on == ReplyOn::Success { data } else { DataMode::Absent },
                    data_ty: data_ty.clone(),
                    payload: payload.clone(),
                }),
            }
        };
        match pattern {
            0 => reply_methods.push(mkm(t, ReplyOn::Success, "ok", &mut used_method_names)),
            1 => reply_methods.push(mkm(t, ReplyOn::Error, "err", &mut used_method_names)),
            2 => {
                let s = mkm(t, ReplyOn::Success, "ok", &mut used_method_names);
                let e = mkm(t, ReplyOn::Error, "err", &mut used_method_names);
                let err_first = any_order && t.chance(50);
                // mixed markers: one method takes a typed `Binary` payload, the other marks the
                // same parameter `#[sv::payload(raw)]` (the builder's input must reach both)
                let (mut s, mut e) = (s, e);
                if t.chance(12) {
                    let typed = Payload::Typed(vec![Arg { name: "blob".into(), ty: Ty::Binary, attrs: vec![] }]);
                    let raw_on_success = t.chance(50);
                    s.reply.as_mut().unwrap().payload = if raw_on_success { Payload::Raw } else { typed.clone() };
                    e.reply.as_mut().unwrap().payload = if raw_on_success { typed } else { Payload::Raw };
                }
                let (s, e) = if s.name == hnames[0] && s.reply.as_ref().unwrap().handlers.is_empty() {
                    // the success method took the implicit name: the error one must name it explicitly
                    (s, Method { reply: Some(ReplySpec { handlers: hnames.clone(), ..e.reply.clone().unwrap() }), ..e })
                } else {
                    (s, e)
                };
                if err_first {
                    reply_methods.push(e);
                    reply_methods.push(s);
                } else {
                    reply_methods.push(s);
                    reply_methods.push(e);
                }
            }
            _ => reply_methods.push(mkm(t, ReplyOn::Always, "any", &mut used_method_names)),
        }
        i += if share { 2 } else { 1 };
    }
    // an implicit-name method must not be shadowed by explicit handlers elsewhere: fix up
    // methods whose implicit name collides with a second method of the same handler
    for m in reply_methods.iter_mut() {
        let spec = m.reply.as_mut().unwrap();
        if spec.handlers.is_empty() {
            // keep implicit
        }
    }
    // systematic coverage of the local-name list: program number k renames the first typed
    // payload parameter (in every method of that handler group) to LOCALS[k % len]
    if let Some(k) = opts.force_local {
        let local = LOCALS[k % LOCALS.len()].to_string();
        let target = reply_methods.iter().find_map(|m| match &m.reply.as_ref().unwrap().payload {
            Payload::Typed(a) if !a.iter().any(|x| x.name == local) => Some(a.clone()),
            _ => None,
        });
        if let Some(target) = target {
            for m in reply_methods.iter_mut() {
                let spec = m.reply.as_mut().unwrap();
                if spec.payload == Payload::Typed(target.clone()) {
                    if let Payload::Typed(a) = &mut spec.payload {
                        a[0].name = local.clone();
                    }
                }
            }
        }
    }
    // insert the non-reply methods at random positions, keeping the reply methods' order
    let others = std::mem::take(&mut methods);
    methods = reply_methods;
    for m in others {
        let pos = t.pick(methods.len() + 1);
        methods.insert(pos, m);
    }
    Program {
        id: id.to_string(),
        contract: Contract {
            generics,
            generic_names: vec![],
            rel_bounds: vec![],
            error,
            custom_msg,
            custom_query,
            replies: true,
            overrides: vec![],
            msg_attrs: vec![],
            methods,
            entry_points: true,
            query_err_param: None,
            lifetime: false,
            flip_attr_order: false,
        },
        interfaces: vec![],
    }
}
