mod c13;
mod c14;
mod c18;
mod check;
mod corpus;
mod e1;
mod e1props;
mod e3;
mod e3props;
mod expander;
mod proj;
mod gen;
mod names;
mod render;
mod shrink;
mod surface;

use proptest::strategy::{Strategy, ValueTree};
use proptest::test_runner::{Config, RngAlgorithm, TestRng, TestRunner};
use svmodel::Program;

pub fn draw_tapes(seed: u64, n: usize, len: usize) -> Vec<Vec<u32>> {
    let mut seed_bytes = [0u8; 32];
    seed_bytes[..8].copy_from_slice(&seed.to_le_bytes());
    let mut runner = TestRunner::new_with_rng(Config::default(), TestRng::from_seed(RngAlgorithm::ChaCha, &seed_bytes));
    let strat = svmodel::tape::tape_strategy(len);
    (0..n).map(|_| strat.new_tree(&mut runner).unwrap().current()).collect()
}

pub fn fam_msg(seed: u64, n: usize, opts: &gen::GenOpts) -> Vec<Program> {
    draw_tapes(seed ^ 0x6d73_67, n, 600)
        .into_iter()
        .enumerate()
        .map(|(i, t)| gen::gen_msg_program(&format!("p_{i:03}"), t, opts))
        .collect()
}

pub fn fam_reply(seed: u64, n: usize, opts: &gen::GenOpts, any_order: bool) -> Vec<Program> {
    draw_tapes(seed ^ 0x7265_706c, n, 600)
        .into_iter()
        .enumerate()
        .map(|(i, t)| gen::gen_reply_program(&format!("r_{i:03}"), t, &gen::GenOpts { force_local: Some(i), ..opts.clone() }, any_order))
        .collect()
}

fn main() {
    let args: Vec<String> = std::env::args().collect();
    match args.get(1).map(|s| s.as_str()) {
        Some("dev-corpus") => {
            let n: usize = args.get(2).and_then(|s| s.parse().ok()).unwrap_or(4);
            let seed: u64 = args.get(3).and_then(|s| s.parse().ok()).unwrap_or(1);
            let nlibs: usize = args.get(4).and_then(|s| s.parse().ok()).unwrap_or(1);
            let progs = if std::env::var("FAM").as_deref() == Ok("reply") {
                fam_reply(seed, n, &gen::GenOpts::default(), false)
            } else {
                fam_msg(seed, n, &gen::GenOpts::default())
            };
            let spec = corpus::CorpusSpec { name: "dev", programs: &progs, alias: None, extra_files: vec![], bin_skip: vec![] };
            let dir = corpus::write_corpus(&spec, nlibs);
            let t0 = std::time::Instant::now();
            let out = corpus::cargo_build(&dir, &[], "corpus");
            eprintln!("build ok={} in {:.1}s exe={:?}", out.ok, t0.elapsed().as_secs_f64(), out.exe);
            for e in out.errors.iter().take(12) {
                eprintln!("{}", e.rendered);
            }
            if !out.ok {
                eprintln!("{}", out.raw_tail);
            }
        }
        Some("warm") => {
            match expander::build_expander() {
                Ok(p) => eprintln!("expander: {}", p.display()),
                Err(e) => {
                    eprintln!("{e}");
                    std::process::exit(2)
                }
            }
            let progs = fam_msg(1, 2, &gen::GenOpts::default());
            let spec = corpus::CorpusSpec { name: "warm", programs: &progs, alias: None, extra_files: vec![], bin_skip: vec![] };
            let dir = corpus::write_corpus(&spec, 1);
            let out = corpus::cargo_build(&dir, &[], "corpus");
            if !out.ok {
                for e in out.errors.iter().take(5) {
                    eprintln!("{}", e.rendered);
                }
                eprintln!("{}", out.raw_tail);
                std::process::exit(2);
            }
        }
        Some("check") => {
            let prop = args.get(2).cloned().unwrap_or_default();
            let mut tier = std::env::var("VERIF_TIER").unwrap_or_else(|_| "quick".into());
            let mut replay = None;
            let mut i = 3;
            while i < args.len() {
                match args[i].as_str() {
                    "--tier" => {
                        tier = args[i + 1].clone();
                        i += 1;
                    }
                    "--replay" => {
                        replay = Some(std::path::PathBuf::from(&args[i + 1]));
                        i += 1;
                    }
                    other => {
                        eprintln!("unknown argument {other}");
                        std::process::exit(2);
                    }
                }
                i += 1;
            }
            let seed: u64 = std::env::var("VERIF_SEED").ok().and_then(|s| s.parse::<i64>().ok()).map(|s| s as u64).unwrap_or(0);
            let seed = if seed == 0 { 0x5a1b1a } else { seed };
            let ctx = check::Ctx { prop, tier, seed, replay, known: check::load_known(), t0: std::time::Instant::now() };
            std::process::exit(check::run(&ctx));
        }
        _ => eprintln!("usage: svgen check <Cxx> [--tier quick|thorough] [--replay file]"),
    }
}
