//! Identifier pools.  Names are drawn from small pools so that cross-kind sharing and
//! near-collisions are frequent rather than accidental.

use convert_case::{Case, Casing};
use svmodel::tape::Tape;

const WORDS: &[&str] = &[
    "a", "add", "burn", "from", "get", "list", "member", "set", "x", "mint", "owner", "v", "to",
    "all", "foo", "bar", "allowance", "admin", "of", "update",
];
const DIGITS: &[&str] = &["1", "2", "10", "20", "007", "64"];

/// Shape S1: lower-case words, each optionally ending in digits, joined by single `_`.
pub fn name_s1(t: &mut Tape) -> String {
    let nwords = 1 + t.weighted(&[40, 40, 20]);
    let mut parts = vec![];
    for _ in 0..nwords {
        let mut w = WORDS[t.pick(WORDS.len())].to_string();
        if t.chance(30) {
            w.push_str(DIGITS[t.pick(DIGITS.len())]);
        }
        parts.push(w);
    }
    parts.join("_")
}

/// Shape S2: S1 plus digits inside words, digit-only words, leading / doubled underscores.
pub fn name_s2(t: &mut Tape) -> String {
    match t.weighted(&[50, 12, 12, 8, 8, 10]) {
        0 => name_s1(t),
        1 => {
            // digit in the middle of a word: a2b
            let a = WORDS[t.pick(WORDS.len())];
            let b = WORDS[t.pick(WORDS.len())];
            format!("{a}{}{b}", DIGITS[t.pick(DIGITS.len())])
        }
        2 => {
            // digit-only word: foo_1
            format!("{}_{}", name_s1(t), DIGITS[t.pick(DIGITS.len())])
        }
        3 => format!("_{}", name_s1(t)),
        4 => {
            let a = name_s1(t);
            let b = WORDS[t.pick(WORDS.len())];
            format!("{a}__{b}")
        }
        _ => {
            // digits then more words: v2_add
            format!("{}{}_{}", WORDS[t.pick(WORDS.len())], DIGITS[t.pick(DIGITS.len())], name_s1(t))
        }
    }
}

const ARGS: &[&str] = &[
    "a", "b", "amount", "who", "to", "data", "k", "value", "x1", "owner_addr", "msg", "r#type",
    "r#match", "deps", "env", "info", "n", "s", "list", "field1", "field2", "payload2", "id", "tokenId", "newOwner", "X",
    "_unused", "a_b_c",
];

pub fn arg_name(t: &mut Tape, used: &[String]) -> String {
    for _ in 0..4 {
        let n = ARGS[t.pick(ARGS.len())].to_string();
        if !used.contains(&n) {
            return n;
        }
    }
    let mut i = 0;
    loop {
        let n = format!("arg{i}");
        if !used.contains(&n) {
            return n;
        }
        i += 1;
    }
}

/// The identifier sylvia gives the enum variant of a method (used only to *name Rust items*
/// in generated glue, never to predict wire names).
pub fn variant_ident(method: &str) -> String {
    method.to_case(Case::UpperCamel)
}

/// The identifier of the generated constructor / executor / querier / proxy method.
pub fn helper_ident(method: &str) -> String {
    variant_ident(method).to_case(Case::Snake)
}

pub fn is_s1(name: &str) -> bool {
    if name.is_empty() {
        return false;
    }
    name.split('_').all(|w| {
        let letters = w.chars().take_while(|c| c.is_ascii_lowercase()).count();
        letters > 0 && w[letters..].chars().all(|c| c.is_ascii_digit())
    })
}

pub fn has_digit(name: &str) -> bool {
    name.chars().any(|c| c.is_ascii_digit())
}

pub fn words(name: &str) -> usize {
    name.split('_').filter(|w| !w.is_empty()).count()
}

#[cfg(test)]
mod tests {
    use super::*;
    #[test]
    fn s1() {
        assert!(is_s1("add_member2"));
        assert!(is_s1("foo"));
        assert!(!is_s1("a2b"));
        assert!(!is_s1("foo_1"));
        assert!(!is_s1("_foo"));
        assert!(!is_s1("foo__bar"));
    }
}
