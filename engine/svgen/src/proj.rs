//! Projections of macro expansions (parsed with syn): the observable structure the E1
//! properties compare against the model.

use quote::ToTokens;
use syn::visit::Visit;
use syn::visit_mut::VisitMut;
use syn::{Attribute, Fields, File, Item, ItemEnum, ItemImpl, ItemMod, ItemStruct};

pub fn parse(text: &str) -> Result<File, String> {
    syn::parse_file(text).map_err(|e| format!("expansion does not parse: {e}"))
}

pub fn ts<T: ToTokens>(t: &T) -> String {
    t.to_token_stream().to_string()
}

/// Normalise a piece of Rust source to its token string (parse -> print).
pub fn norm_item(text: &str) -> Result<String, String> {
    let f = syn::parse_file(text).map_err(|e| format!("does not parse: {e}: {text}"))?;
    Ok(ts(&f))
}

pub fn find_mod<'a>(items: &'a [Item], name: &str) -> Option<&'a ItemMod> {
    items.iter().find_map(|i| match i {
        Item::Mod(m) if m.ident == name => Some(m),
        _ => None,
    })
}

pub fn mod_items(m: &ItemMod) -> &[Item] {
    m.content.as_ref().map(|(_, v)| v.as_slice()).unwrap_or(&[])
}

#[derive(Debug, Clone, PartialEq)]
pub struct FieldInfo {
    pub name: String,
    pub ty: String,
    pub attrs: Vec<String>,
}

#[derive(Debug, Clone, PartialEq)]
pub struct VariantInfo {
    pub name: String,
    pub fields: Vec<FieldInfo>,
    pub attrs: Vec<String>,
}

#[derive(Debug, Clone, PartialEq)]
pub struct TypeInfo {
    pub name: String,
    pub generics: Vec<String>,
    pub attrs: Vec<String>,
    /// enum: variants; struct: one pseudo-variant holding the fields
    pub variants: Vec<VariantInfo>,
}

fn attrs_of(a: &[Attribute]) -> Vec<String> {
    a.iter().map(ts).collect()
}

fn fields_of(f: &Fields) -> Vec<FieldInfo> {
    f.iter()
        .enumerate()
        .map(|(i, f)| FieldInfo {
            name: f.ident.as_ref().map(|i| i.to_string()).unwrap_or_else(|| i.to_string()),
            ty: ts(&f.ty),
            attrs: attrs_of(&f.attrs),
        })
        .collect()
}

pub fn enum_info(e: &ItemEnum) -> TypeInfo {
    TypeInfo {
        name: e.ident.to_string(),
        generics: e.generics.params.iter().map(ts).collect(),
        attrs: attrs_of(&e.attrs),
        variants: e.variants.iter().map(|v| VariantInfo { name: v.ident.to_string(), fields: fields_of(&v.fields), attrs: attrs_of(&v.attrs) }).collect(),
    }
}

pub fn struct_info(s: &ItemStruct) -> TypeInfo {
    TypeInfo {
        name: s.ident.to_string(),
        generics: s.generics.params.iter().map(ts).collect(),
        attrs: attrs_of(&s.attrs),
        variants: vec![VariantInfo { name: "<struct>".into(), fields: fields_of(&s.fields), attrs: vec![] }],
    }
}

pub fn type_info(items: &[Item], name: &str) -> Option<TypeInfo> {
    items.iter().find_map(|i| match i {
        Item::Enum(e) if e.ident == name => Some(enum_info(e)),
        Item::Struct(s) if s.ident == name => Some(struct_info(s)),
        _ => None,
    })
}

/// inherent impl blocks `impl<..> Name<..> where ..` : (generic params, where predicates)
pub fn inherent_impls(items: &[Item], name: &str) -> Vec<(Vec<String>, Vec<String>)> {
    items
        .iter()
        .filter_map(|i| match i {
            Item::Impl(im) if im.trait_.is_none() && self_ty_name(im).as_deref() == Some(name) => Some((
                im.generics.params.iter().map(ts).collect(),
                im.generics.where_clause.as_ref().map(|w| w.predicates.iter().map(ts).collect()).unwrap_or_default(),
            )),
            _ => None,
        })
        .collect()
}

pub fn self_ty_name(im: &ItemImpl) -> Option<String> {
    match &*im.self_ty {
        syn::Type::Path(p) => p.path.segments.last().map(|s| s.ident.to_string()),
        _ => None,
    }
}

/// `fn` items of `pub mod entry_points`: (name, type of the `msg` parameter)
pub fn entry_fns(file: &File) -> Option<Vec<(String, String)>> {
    let m = find_mod(&file.items, "entry_points")?;
    Some(
        mod_items(m)
            .iter()
            .filter_map(|i| match i {
                Item::Fn(f) => {
                    let msg = f
                        .sig
                        .inputs
                        .iter()
                        .filter_map(|a| match a {
                            syn::FnArg::Typed(t) if ts(&t.pat) == "msg" => Some(ts(&t.ty)),
                            _ => None,
                        })
                        .next()
                        .unwrap_or_default();
                    Some((f.sig.ident.to_string(), msg))
                }
                _ => None,
            })
            .collect(),
    )
}

/// All `#[doc = "vp-N"]` markers with the path of the item they are attached to.
pub fn markers(file: &File) -> Vec<(u32, String)> {
    struct V {
        path: Vec<String>,
        out: Vec<(u32, String)>,
    }
    fn marker(a: &Attribute) -> Vec<u32> {
        let s = ts(a);
        if a.path().is_ident("doc") {
            let Some(pos) = s.find("vp-") else { return vec![] };
            let digits: String = s[pos + 3..].chars().take_while(|c| c.is_ascii_digit()).collect();
            return digits.parse().ok().into_iter().collect();
        }
        if a.path().is_ident("derive") {
            // derive markers: identifiers `Vp<N><Suffix>` inside the list
            let mut out = vec![];
            for tok in s.split(|c: char| !c.is_alphanumeric() && c != '_') {
                if let Some(rest) = tok.strip_prefix("Vp") {
                    let digits: String = rest.chars().take_while(|c| c.is_ascii_digit()).collect();
                    if let Ok(n) = digits.parse() {
                        out.push(n);
                    }
                }
            }
            return out;
        }
        vec![]
    }
    impl V {
        fn note(&mut self, attrs: &[Attribute]) {
            for a in attrs {
                for n in marker(a) {
                    self.out.push((n, self.path.join("::")));
                }
            }
        }
    }
    impl<'ast> Visit<'ast> for V {
        fn visit_item_mod(&mut self, i: &'ast ItemMod) {
            self.path.push(format!("mod {}", i.ident));
            self.note(&i.attrs);
            syn::visit::visit_item_mod(self, i);
            self.path.pop();
        }
        fn visit_item_enum(&mut self, i: &'ast ItemEnum) {
            self.path.push(format!("type {}", i.ident));
            self.note(&i.attrs);
            syn::visit::visit_item_enum(self, i);
            self.path.pop();
        }
        fn visit_item_struct(&mut self, i: &'ast ItemStruct) {
            self.path.push(format!("type {}", i.ident));
            self.note(&i.attrs);
            syn::visit::visit_item_struct(self, i);
            self.path.pop();
        }
        fn visit_variant(&mut self, i: &'ast syn::Variant) {
            self.path.push(format!("variant {}", i.ident));
            self.note(&i.attrs);
            syn::visit::visit_variant(self, i);
            self.path.pop();
        }
        fn visit_field(&mut self, i: &'ast syn::Field) {
            self.path.push(format!("field {}", i.ident.as_ref().map(|i| i.to_string()).unwrap_or_default()));
            self.note(&i.attrs);
            syn::visit::visit_field(self, i);
            self.path.pop();
        }
        fn visit_item_impl(&mut self, i: &'ast ItemImpl) {
            self.path.push(format!("impl {}", ts(&i.self_ty)));
            self.note(&i.attrs);
            syn::visit::visit_item_impl(self, i);
            self.path.pop();
        }
        fn visit_item_trait(&mut self, i: &'ast syn::ItemTrait) {
            self.path.push(format!("trait {}", i.ident));
            self.note(&i.attrs);
            syn::visit::visit_item_trait(self, i);
            self.path.pop();
        }
        fn visit_impl_item_fn(&mut self, i: &'ast syn::ImplItemFn) {
            self.path.push(format!("fn {}", i.sig.ident));
            self.note(&i.attrs);
            syn::visit::visit_impl_item_fn(self, i);
            self.path.pop();
        }
        fn visit_trait_item_fn(&mut self, i: &'ast syn::TraitItemFn) {
            self.path.push(format!("fn {}", i.sig.ident));
            self.note(&i.attrs);
            syn::visit::visit_trait_item_fn(self, i);
            self.path.pop();
        }
        fn visit_item_fn(&mut self, i: &'ast syn::ItemFn) {
            self.path.push(format!("fn {}", i.sig.ident));
            self.note(&i.attrs);
            syn::visit::visit_item_fn(self, i);
            self.path.pop();
        }
        fn visit_pat_type(&mut self, i: &'ast syn::PatType) {
            self.path.push(format!("param {}", ts(&i.pat)));
            self.note(&i.attrs);
            syn::visit::visit_pat_type(self, i);
            self.path.pop();
        }
        fn visit_attribute(&mut self, _: &'ast Attribute) {}
    }
    let mut v = V { path: vec![], out: vec![] };
    v.visit_file(file);
    v.out
}

/// Canonical form of an expansion for order-insensitive comparison (C14): everything whose
/// order only reflects declaration order is sorted, reply id literals are dropped.
pub fn canonical(file: &File) -> String {
    struct C;
    fn item_key(i: &Item) -> String {
        match i {
            Item::Enum(e) => format!("1enum {}", e.ident),
            Item::Struct(e) => format!("1struct {}", e.ident),
            Item::Type(e) => format!("2type {}", e.ident),
            Item::Const(e) => format!("3const {}", e.ident),
            Item::Fn(e) => format!("4fn {}", e.sig.ident),
            Item::Trait(e) => format!("5trait {}", e.ident),
            Item::Mod(e) => format!("9mod {}", e.ident),
            Item::Impl(e) => format!("6impl {} for {} <{}>", e.trait_.as_ref().map(|t| ts(&t.1)).unwrap_or_default(), ts(&e.self_ty), ts(&e.generics)),
            other => format!("0{}", ts(other)),
        }
    }
    impl VisitMut for C {
        fn visit_item_mod_mut(&mut self, i: &mut ItemMod) {
            syn::visit_mut::visit_item_mod_mut(self, i);
            if let Some((_, items)) = &mut i.content {
                items.sort_by_key(item_key);
            }
        }
        fn visit_item_enum_mut(&mut self, i: &mut ItemEnum) {
            syn::visit_mut::visit_item_enum_mut(self, i);
            let mut v: Vec<syn::Variant> = i.variants.iter().cloned().collect();
            v.sort_by_key(|v| v.ident.to_string());
            i.variants = v.into_iter().collect();
            i.attrs.sort_by_key(ts);
        }
        fn visit_item_struct_mut(&mut self, i: &mut ItemStruct) {
            syn::visit_mut::visit_item_struct_mut(self, i);
            i.attrs.sort_by_key(ts);
        }
        fn visit_item_impl_mut(&mut self, i: &mut ItemImpl) {
            syn::visit_mut::visit_item_impl_mut(self, i);
            i.attrs.sort_by_key(ts);
            i.items.sort_by_key(|it| match it {
                syn::ImplItem::Fn(f) => format!("fn {}", f.sig.ident),
                syn::ImplItem::Type(t) => format!("type {}", t.ident),
                other => ts(other),
            });
        }
        // the attributes of one method are a declaration order too (`sv::attr` above / below
        // `sv::msg`); the re-emitted user item keeps whatever order was written
        fn visit_trait_item_fn_mut(&mut self, i: &mut syn::TraitItemFn) {
            syn::visit_mut::visit_trait_item_fn_mut(self, i);
            i.attrs.sort_by_key(ts);
        }
        fn visit_item_trait_mut(&mut self, i: &mut syn::ItemTrait) {
            syn::visit_mut::visit_item_trait_mut(self, i);
            i.attrs.sort_by_key(ts);
            i.items.sort_by_key(|it| match it {
                syn::TraitItem::Fn(f) => format!("fn {}", f.sig.ident),
                syn::TraitItem::Type(t) => format!("type {}", t.ident),
                other => ts(other),
            });
        }
        fn visit_generics_mut(&mut self, i: &mut syn::Generics) {
            syn::visit_mut::visit_generics_mut(self, i);
            // the order of the type parameters of generated types follows first use (see DESIGN C14)
            let mut v: Vec<syn::GenericParam> = i.params.iter().cloned().collect();
            v.sort_by_key(ts);
            i.params = v.into_iter().collect();
        }
        fn visit_path_segment_mut(&mut self, i: &mut syn::PathSegment) {
            syn::visit_mut::visit_path_segment_mut(self, i);
            if i.ident.to_string().ends_with("Msg") {
                if let syn::PathArguments::AngleBracketed(a) = &mut i.arguments {
                    let mut v: Vec<syn::GenericArgument> = a.args.iter().cloned().collect();
                    v.sort_by_key(ts);
                    a.args = v.into_iter().collect();
                }
            }
        }
        fn visit_type_tuple_mut(&mut self, i: &mut syn::TypeTuple) {
            syn::visit_mut::visit_type_tuple_mut(self, i);
            // PhantomData<(T2, T0,)> of generated types: parameter order only
            let simple = i.elems.iter().all(|t| matches!(t, syn::Type::Path(p) if p.qself.is_none() && p.path.segments.len() == 1 && p.path.segments[0].arguments.is_none()));
            if simple && i.elems.len() >= 2 {
                let mut v: Vec<syn::Type> = i.elems.iter().cloned().collect();
                v.sort_by_key(ts);
                i.elems = v.into_iter().collect();
                i.elems.push_punct(Default::default());
            }
        }
        fn visit_variant_mut(&mut self, i: &mut syn::Variant) {
            syn::visit_mut::visit_variant_mut(self, i);
            if i.ident == "_Phantom" {
                i.attrs.clear();
            }
        }
        fn visit_expr_match_mut(&mut self, i: &mut syn::ExprMatch) {
            syn::visit_mut::visit_expr_match_mut(self, i);
            // keep a trailing wildcard arm last
            i.arms.sort_by_key(|a| {
                let p = ts(&a.pat);
                (p == "_", p)
            });
        }
        fn visit_expr_array_mut(&mut self, i: &mut syn::ExprArray) {
            syn::visit_mut::visit_expr_array_mut(self, i);
            let mut v: Vec<syn::Expr> = i.elems.iter().cloned().collect();
            v.sort_by_key(ts);
            i.elems = v.into_iter().collect();
        }
        fn visit_item_const_mut(&mut self, i: &mut syn::ItemConst) {
            syn::visit_mut::visit_item_const_mut(self, i);
            if i.ident.to_string().ends_with("_REPLY_ID") {
                *i.expr = syn::parse_quote!(0);
            }
        }
        fn visit_impl_item_fn_mut(&mut self, i: &mut syn::ImplItemFn) {
            syn::visit_mut::visit_impl_item_fn_mut(self, i);
            i.attrs.sort_by_key(ts);
            // the wrapper's Deserialize tries its parts one after the other: order of the
            // attempts only reflects declaration order (names are disjoint by C05)
            if i.sig.ident == "deserialize" {
                let mut keyed: Vec<(usize, String, syn::Stmt)> =
                    i.block.stmts.iter().cloned().enumerate().map(|(n, s)| (n, ts(&s), s)).collect();
                // sort only the run of `if let Value::String(..) = .. { attempts }` inner statements
                for (_, _, s) in keyed.iter_mut() {
                    if let syn::Stmt::Expr(syn::Expr::If(iff), _) = s {
                        let mut inner: Vec<syn::Stmt> = iff.then_branch.stmts.clone();
                        // attempts come in pairs (let msgs = ..; if .. {..}) -> group by pair
                        let mut pairs: Vec<Vec<syn::Stmt>> = inner.chunks(2).map(|c| c.to_vec()).collect();
                        pairs.sort_by_key(|p| p.iter().map(ts).collect::<Vec<_>>().join(" "));
                        inner = pairs.into_iter().flatten().collect();
                        iff.then_branch.stmts = inner;
                    }
                }
                i.block.stmts = keyed.into_iter().map(|(_, _, s)| s).collect();
            }
        }
    }
    let mut f = file.clone();
    C.visit_file_mut(&mut f);
    f.items.sort_by_key(item_key);
    ts(&f)
}
