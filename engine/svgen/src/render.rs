//! Renders a `Program` to Rust source: the program itself (as a user would write it) and
//! the glue registering type-erased access for the runtime.

use crate::names::{helper_ident, variant_ident};
use std::fmt::Write;
use svmodel::*;

pub struct RenderOpts {
    /// name under which the corpus crate imports sylvia (`sylvia` or an alias)
    pub sv: String,
    /// emit `#[entry_points]` glue / mt glue
    pub glue: bool,
}

impl Default for RenderOpts {
    fn default() -> Self {
        RenderOpts { sv: "sylvia".into(), glue: true }
    }
}

pub fn param_names(p: &Program) -> Vec<String> {
    let n = p.contract.generics.len();
    if p.contract.generic_names.len() == n {
        p.contract.generic_names.clone()
    } else {
        (0..n).map(|i| format!("T{i}")).collect()
    }
}
pub fn assoc_self_names(i: &Interface) -> Vec<String> {
    (0..i.assoc.len()).map(|k| format!("Self::{}", i.assoc_name(k))).collect()
}
fn conc_names(tys: &[Ty]) -> Vec<String> {
    tys.iter().map(|t| t.rust(&[], &[])).collect()
}

pub fn c_ty(p: &Program) -> &'static str {
    if p.contract.custom_msg {
        "MyMsg"
    } else {
        "Empty"
    }
}
pub fn q_ty(p: &Program) -> &'static str {
    if p.contract.custom_query {
        "MyQuery"
    } else {
        "Empty"
    }
}
pub fn err_ty(p: &Program) -> &'static str {
    match p.contract.error {
        ErrTy::Custom => "CErr",
        ErrTy::Std => "StdError",
    }
}

/// custom msg / query type an interface's handlers are written against
pub fn iface_cq(p: &Program, i: &Interface) -> (&'static str, &'static str) {
    match i.style {
        CustomStyle::Plain => ("Empty", "Empty"),
        _ => (c_ty(p), q_ty(p)),
    }
}

fn arg_attrs(a: &Arg) -> String {
    let mut s = String::new();
    for at in &a.attrs {
        match at {
            // written plainly or behind an always-true cfg_attr (forwarded verbatim either way)
            ArgAttr::SerdeDefault if a.name.len() % 2 == 1 => s.push_str("#[cfg_attr(all(), serde(default))] "),
            ArgAttr::SerdeDefault => s.push_str("#[serde(default)] "),
            ArgAttr::Marker(n) => write!(s, "#[doc = \"vp-{n}\"] ").unwrap(),
        }
    }
    s
}

fn variant_attrs(m: &Method) -> String {
    let mut s = String::new();
    for at in &m.variant_attrs {
        match at {
            VariantAttr::Marker(n) => writeln!(s, "        #[sv::attr(doc = \"vp-{n}\")]").unwrap(),
            VariantAttr::SerdeAlias(a) => writeln!(s, "        #[sv::attr(serde(alias = \"{a}\"))]").unwrap(),
        }
    }
    s
}

fn msg_attrs(list: &[(Kind, MsgAttr)]) -> String {
    let mut s = String::new();
    for (k, a) in list {
        match a {
            MsgAttr::Marker(n) => writeln!(s, "#[sv::msg_attr({}, doc = \"vp-{n}\")]", k.attr()).unwrap(),
            MsgAttr::DerivePartialOrd => writeln!(s, "#[sv::msg_attr({}, derive(PartialOrd))]", k.attr()).unwrap(),
            MsgAttr::DeriveMarker(n) => {
                const SUFFIX: &[&str] = &["Serialize", "Deserialize", "Clone", "Debug", "PartialEq", "JsonSchema", "Marker"];
                let name = format!("Vp{n}{}", SUFFIX[*n as usize % SUFFIX.len()]);
                let list = match n % 3 {
                    0 => name,
                    1 => format!("Eq, vp::{name}"),
                    _ => format!("{name}, PartialOrd"),
                };
                writeln!(s, "#[sv::msg_attr({}, derive({list}))]", k.attr()).unwrap()
            }
        }
    }
    s
}

fn resp_rust(r: RespTy, params: &[String]) -> String {
    match r {
        RespTy::EchoA => "EchoA".into(),
        RespTy::EchoB => "EchoB".into(),
        RespTy::EchoC => "EchoC".into(),
        RespTy::Param(i) => params[i].clone(),
        RespTy::Bin => "Binary".into(),
        RespTy::Text => "String".into(),
    }
}

/// Does the handler's signature spell the twin of its explicitly declared response type?
pub fn resp_twin(m: &Method) -> bool {
    m.resp_explicit && !matches!(m.resp, RespTy::Param(_)) && m.name.len() % 2 == 1
}

fn ctx_ty(kind: Kind, q: &str) -> String {
    if q == "Empty" {
        kind.ctx().to_string()
    } else {
        format!("{}<{}>", kind.ctx(), q)
    }
}
fn resp_ty(c: &str) -> String {
    if c == "Empty" {
        "Response".to_string()
    } else {
        format!("Response<{c}>")
    }
}

/// Signature pieces shared by the trait declaration, the trait impl and contract methods.
struct Sig {
    attr: String,
    params: String,
    ret: String,
}

fn sig(m: &Method, kind: Kind, params: &[String], assocs: &[String], c: &str, q: &str, err: &str, with_attrs: bool) -> Sig {
    let mut ps = format!("&self, ctx: {}", ctx_ty(kind, q));
    for a in &m.args {
        write!(
            ps,
            ", {}{}: {}",
            if with_attrs { arg_attrs(a) } else { String::new() },
            a.name,
            a.ty.rust(params, assocs)
        )
        .unwrap();
    }
    let (attr, ret) = if kind == Kind::Query {
        let r = resp_rust(m.resp, if assocs.is_empty() { params } else { assocs });
        if m.resp_explicit {
            // the attribute takes an identifier: `Self::A0` is named `A0`
            let ident = r.rsplit("::").next().unwrap_or(&r).to_string();
            if matches!(m.resp, RespTy::Param(_)) {
                // response is a type parameter behind a generic result alias
                (format!("#[sv::msg(query, resp={ident})]"), format!("GenResult<{r}, {err}>"))
            } else if resp_twin(m) {
                // explicit published type, signature spells an internal twin type
                (format!("#[sv::msg(query, resp={r})]"), format!("Result<{r}Twin, {err}>"))
            } else {
                (format!("#[sv::msg(query, resp={r})]"), format!("{r}Result<{err}>"))
            }
        } else {
            ("#[sv::msg(query)]".to_string(), format!("Result<{r}, {err}>"))
        }
    } else {
        (format!("#[sv::msg({})]", kind.attr()), format!("Result<{}, {err}>", resp_ty(c)))
    };
    Sig { attr, params: ps, ret }
}

fn echo_body(p: &Program, m: &Method, kind: Kind, id: &str, c: &str, q: &str, custom_err: bool, resp_conc: &str) -> String {
    let _ = p;
    let mut args = String::new();
    for a in &m.args {
        write!(args, "(\"{}\", svrt::j(&{})), ", a.key(), a.name).unwrap();
    }
    let tail = if custom_err { ".map_err(to_cerr)" } else { "" };
    if kind == Kind::Query {
        format!(
            "echo_query::<{q}, {resp_conc}>(ctx.deps, &ctx.env, \"{id}\", vec![{args}], |r| <{resp_conc} as svrt::FromRec>::from_rec(r)){tail}"
        )
    } else {
        let info = if kind.has_info() { "Some(&ctx.info)" } else { "None" };
        format!(
            "echo_mut::<{q}, {c}>(ctx.deps, &ctx.env, {info}, \"{id}\", \"{}\", vec![{args}], svrt::serde_json::Value::Null){tail}",
            kind.attr()
        )
    }
}

pub fn generics_decl(p: &Program) -> (String, String, String) {
    // (impl generics `<T0, T1>`, type args `<T0, T1>`, where clause)
    let n = p.contract.generics.len();
    if n == 0 {
        if p.contract.lifetime {
            return ("<'a>".into(), "<'a>".into(), String::new());
        }
        return (String::new(), String::new(), String::new());
    }
    let names = param_names(p);
    let list = if p.contract.lifetime { format!("'a, {}", names.join(", ")) } else { names.join(", ") };
    let preds: Vec<String> = names
        .iter()
        .enumerate()
        .map(|(i, t)| {
            let mut b = format!("{t}: Gen");
            for (x, j) in &p.contract.rel_bounds {
                if *x == i {
                    b.push_str(&format!(" + Rel<{}>", names[*j]));
                }
            }
            b
        })
        .collect();
    (format!("<{list}>"), format!("<{list}>"), format!("where {}", preds.join(", ")))
}

pub fn concrete_contract(p: &Program) -> String {
    if p.contract.generics.is_empty() {
        "Ctr".to_string()
    } else {
        format!("Ctr<{}>", conc_names(&p.contract.generics).join(", "))
    }
}

/// The program as a user would write it.
/// The trait item of an interface, with its `sv` attributes but without `#[interface]`.
pub fn render_interface_item(p: &Program, i: &Interface) -> String {
    let mut s = String::new();
    let (ic, iq) = iface_cq(p, i);
    let assocs = assoc_self_names(i);
    if i.style == CustomStyle::Fixed {
        writeln!(s, "#[sv::custom(msg={ic}, query={iq})]").unwrap();
    }
    s.push_str(&msg_attrs(&i.msg_attrs));
    writeln!(s, "pub trait {} {{", i.trait_name).unwrap();
    writeln!(s, "    type Error: From<StdError>;").unwrap();
    let (sc, sq) = if i.style == CustomStyle::Assoc {
        writeln!(s, "    type ExecC: CustomMsg;").unwrap();
        writeln!(s, "    type QueryC: CustomQuery;").unwrap();
        ("Self::ExecC", "Self::QueryC")
    } else {
        (ic, iq)
    };
    for k in 0..i.assoc.len() {
        writeln!(s, "    type {}: Gen;", i.assoc_name(k)).unwrap();
    }
    for m in &i.methods {
        let Role::Handler(kind) = m.role else { continue };
        let e = if m.err == ErrTy::Custom { "Self::Error" } else { "StdError" };
        let sg = sig(m, kind, &[], &assocs, sc, sq, e, true);
        // forwarded attributes are written above or below `sv::msg` (both are legal)
        let above = (m.name.len() % 2 == 0) ^ p.contract.flip_attr_order;
        let gap = m.name.len() % 3 != 0 && !m.variant_attrs.is_empty();
        if !above {
            writeln!(s, "    {}", sg.attr).unwrap();
            if gap {
                writeln!(s, "    #[allow(clippy::needless_lifetimes)]").unwrap();
            }
        }
        for l in variant_attrs(m).lines() {
            writeln!(s, "    {}", l.trim_start()).unwrap();
        }
        if above {
            if gap {
                writeln!(s, "    #[allow(clippy::needless_lifetimes)]").unwrap();
            }
            writeln!(s, "    {}", sg.attr).unwrap();
        }
        // a third of the handlers are declared with a provided (default) body; the contract
        // overrides it, the message types must not care
        if m.name.len() % 3 == 1 {
            writeln!(s, "    fn {}({}) -> {} {{ unimplemented!() }}", m.name, sg.params, sg.ret).unwrap();
        } else {
            writeln!(s, "    fn {}({}) -> {};", m.name, sg.params, sg.ret).unwrap();
        }
    }
    writeln!(s, "}}").unwrap();
    s
}

/// Tokens inside `#[entry_points(..)]`.
pub fn entry_points_attr(p: &Program) -> String {
    if p.contract.generics.is_empty() {
        String::new()
    } else {
        format!("generics<{}>", conc_names(&p.contract.generics).join(", "))
    }
}

/// `sv::` attribute lines of the contract impl; `order` optionally permutes the repeatable
/// ones (messages, msg_attr, override_entry_point) -- used by the C14 twins.
pub fn contract_attr_lines(p: &Program) -> Vec<String> {
    let mut lines = vec![];
    if p.contract.error == ErrTy::Custom {
        lines.push("#[sv::error(CErr)]".to_string());
    }
    if p.contract.custom_msg || p.contract.custom_query {
        let mut parts = vec![];
        if p.contract.custom_msg {
            parts.push("msg=MyMsg");
        }
        if p.contract.custom_query {
            parts.push("query=MyQuery");
        }
        lines.push(format!("#[sv::custom({})]", parts.join(", ")));
    }
    for i in &p.interfaces {
        let mut line = format!("#[sv::messages({}", i.module);
        if i.explicit_as {
            write!(line, " as {}", i.alias.as_ref().unwrap_or(&i.trait_name)).unwrap();
        }
        if i.style == CustomStyle::Plain {
            let mut flags = vec![];
            if p.contract.custom_msg {
                flags.push("msg");
            }
            if p.contract.custom_query {
                flags.push("query");
            }
            if !flags.is_empty() {
                write!(line, ": custom({})", flags.join(", ")).unwrap();
            }
        }
        line.push_str(")]");
        lines.push(line);
    }
    for l in msg_attrs(&p.contract.msg_attrs).lines() {
        lines.push(l.to_string());
    }
    if p.contract.replies {
        lines.push("#[sv::features(replies)]".to_string());
    }
    for k in &p.contract.overrides {
        lines.push(format!("#[sv::override_entry_point({}=ovr::{}(OvrMsg))]", k.attr(), ovr_fn_name(p, *k)));
    }
    // `sv::messages` attributes need not be adjacent: in the flipped rendering the last one is
    // written after all other attributes (or, if there are none after it, the leading
    // `sv::error` / `sv::custom` line is moved in between)
    if p.contract.flip_attr_order && p.interfaces.len() >= 2 {
        let is_m = |l: &String| l.starts_with("#[sv::messages(");
        if let Some(last) = lines.iter().rposition(is_m) {
            let l = lines.remove(last);
            lines.push(l);
            let n = lines.len();
            if n >= 2 && is_m(&lines[n - 2]) && !is_m(&lines[0]) {
                let first = lines.remove(0);
                let n = lines.len();
                lines.insert(n - 1, first);
            }
        }
    }
    lines
}

/// The methods of the contract impl (text of each method, in model order).
pub fn contract_method_texts(p: &Program) -> Vec<String> {
    let (c, q) = (c_ty(p), q_ty(p));
    let params = param_names(p);
    let mut out = vec![];
    for m in &p.contract.methods {
        let Role::Handler(kind) = m.role else { continue };
        if kind == Kind::Reply {
            out.push(render_reply_method(p, m, &params, c, q));
            continue;
        }
        let mut s = String::new();
        let custom_err = m.err == ErrTy::Custom && p.contract.error == ErrTy::Custom;
        // a query handler's error type may be generic over a contract parameter
        let gen_err = match p.contract.query_err_param {
            Some(i) if kind == Kind::Query && !custom_err && i < params.len() => Some(format!("GenErr<{}>", params[i])),
            _ => None,
        };
        let e = if custom_err { "CErr".to_string() } else { gen_err.clone().unwrap_or_else(|| "StdError".to_string()) };
        let e = e.as_str();
        let sg = sig(m, kind, &params, &[], c, q, e, true);
        let id = format!("ctr::{}::{}", kind.attr(), m.name);
        let resp_conc = if resp_twin(m) { format!("{}Twin", resp_rust(m.resp, &params)) } else { resp_rust(m.resp, &params) };
        let above = (m.name.len() % 2 == 0) ^ p.contract.flip_attr_order;
        // the framework's attributes of one method need not be adjacent: two thirds of the
        // methods with forwarded attributes carry a foreign attribute in between (both orders)
        let gap = m.name.len() % 3 != 0 && !m.variant_attrs.is_empty();
        if !above {
            writeln!(s, "    {}", sg.attr).unwrap();
            if gap {
                writeln!(s, "    #[allow(clippy::needless_lifetimes)]").unwrap();
            }
        }
        for l in variant_attrs(m).lines() {
            writeln!(s, "    {}", l.trim_start()).unwrap();
        }
        if above {
            if gap {
                writeln!(s, "    #[allow(clippy::needless_lifetimes)]").unwrap();
            }
            writeln!(s, "    {}", sg.attr).unwrap();
        }
        writeln!(s, "    fn {}({}) -> {} {{", m.name, sg.params, sg.ret).unwrap();
        let body = echo_body(p, m, kind, &id, c, q, custom_err, &resp_conc);
        writeln!(s, "        {body}{}", if gen_err.is_some() { ".map_err(GenErr::from)" } else { "" }).unwrap();
        writeln!(s, "    }}").unwrap();
        out.push(s);
    }
    out
}

/// The impl item of the contract with its `sv` attributes, without `#[contract]` /
/// `#[entry_points]`.
pub fn render_contract_item_with(p: &Program, attr_lines: &[String], methods: &[String]) -> String {
    let mut s = String::new();
    let (ig, ta, wh) = generics_decl(p);
    for l in attr_lines {
        writeln!(s, "{l}").unwrap();
    }
    writeln!(s, "impl{ig} Ctr{ta} {wh} {{").unwrap();
    if p.contract.generics.is_empty() {
        writeln!(s, "    pub const fn new() -> Self {{ Self }}").unwrap();
    } else {
        writeln!(s, "    pub const fn new() -> Self {{ Self {{ _p: PhantomData }} }}").unwrap();
    }
    for m in methods {
        s.push_str(m);
    }
    writeln!(s, "}}").unwrap();
    s
}

pub fn render_contract_item(p: &Program) -> String {
    render_contract_item_with(p, &contract_attr_lines(p), &contract_method_texts(p))
}

/// Name of the free function standing in for the overridden entry point of kind `k`: the
/// canonical entry-point name, a custom name, or the canonical name of *another* kind with the
/// same signature (the function's name must not matter to the macros).
pub fn ovr_fn_name(p: &Program, k: Kind) -> String {
    match p.contract.methods.len() % 3 {
        0 => k.ep().to_string(),
        1 => format!("custom_{}", k.ep()),
        _ => match k {
            Kind::Exec => "instantiate".into(),
            Kind::Instantiate => "execute".into(),
            Kind::Sudo => "migrate".into(),
            Kind::Migrate => "sudo".into(),
            Kind::Query => "smart_query".into(),
            Kind::Reply => "on_reply".into(),
        },
    }
}

/// Free functions standing in for overridden entry points.
pub fn render_overrides(p: &Program) -> String {
    if p.contract.overrides.is_empty() {
        return String::new();
    }
    let (c, q, err) = (c_ty(p), q_ty(p), err_ty(p));
    let mut s = String::new();
    writeln!(s, "pub mod ovr {{\n    use super::*;").unwrap();
    for k in &p.contract.overrides {
        let conv = if p.contract.error == ErrTy::Custom { ".map_err(CErr::from)" } else { "" };
        match k {
            Kind::Exec | Kind::Instantiate => writeln!(
                s,
                "    pub fn {ep}(deps: DepsMut<{q}>, env: Env, info: MessageInfo, msg: OvrMsg) -> Result<Response<{c}>, {err}> {{ echo_mut::<{q}, {c}>(deps, &env, Some(&info), \"override::{a}\", \"{a}\", vec![(\"tag\", svrt::j(&msg.tag))], svrt::serde_json::Value::Null){conv} }}",
                ep = ovr_fn_name(p, *k),
                a = k.attr()
            )
            .unwrap(),
            Kind::Query => writeln!(
                s,
                "    pub fn {ep}(deps: Deps<{q}>, env: Env, msg: OvrMsg) -> Result<Binary, {err}> {{ let r = echo_query::<{q}, EchoA>(deps, &env, \"override::query\", vec![(\"tag\", svrt::j(&msg.tag))], |r| <EchoA as svrt::FromRec>::from_rec(r)){conv}?; Ok(svrt::to_bin(&r)) }}",
                ep = ovr_fn_name(p, *k)
            )
            .unwrap(),
            Kind::Reply => writeln!(
                s,
                "    pub fn {ep}(deps: DepsMut<{q}>, env: Env, msg: Reply) -> Result<Response<{c}>, {err}> {{ echo_mut::<{q}, {c}>(deps, &env, None, \"override::reply\", \"reply\", vec![(\"id\", svrt::j(&msg.id))], svrt::serde_json::Value::Null){conv} }}",
                ep = ovr_fn_name(p, *k)
            )
            .unwrap(),
            _ => writeln!(
                s,
                "    pub fn {ep}(deps: DepsMut<{q}>, env: Env, msg: OvrMsg) -> Result<Response<{c}>, {err}> {{ echo_mut::<{q}, {c}>(deps, &env, None, \"override::{a}\", \"{a}\", vec![(\"tag\", svrt::j(&msg.tag))], svrt::serde_json::Value::Null){conv} }}",
                ep = ovr_fn_name(p, *k),
                a = k.attr()
            )
            .unwrap(),
        }
    }
    writeln!(s, "}}").unwrap();
    s
}

/// The program as a user would write it.
pub fn render_source(p: &Program, o: &RenderOpts) -> String {
    let mut s = String::new();
    let err = err_ty(p);
    let (ig, ta, wh) = generics_decl(p);
    let params = param_names(p);

    for i in &p.interfaces {
        writeln!(s, "pub mod {} {{", i.module).unwrap();
        writeln!(s, "    use super::*;").unwrap();
        writeln!(s, "    #[interface]").unwrap();
        for l in render_interface_item(p, i).lines() {
            writeln!(s, "    {l}").unwrap();
        }
        writeln!(s, "}}").unwrap();
    }
    s.push_str(&render_overrides(p));

    // contract struct
    if p.contract.generics.is_empty() {
        writeln!(s, "pub struct Ctr;").unwrap();
    } else {
        writeln!(s, "pub struct Ctr{ig} {{ _p: PhantomData<({},)> }}", params.join(", ")).unwrap();
    }

    // interface impls
    for i in &p.interfaces {
        let (ic, iq) = iface_cq(p, i);
        let conc = conc_names(&i.assoc);
        writeln!(s, "impl{ig} {}::{} for Ctr{ta} {wh} {{", i.module, i.trait_name).unwrap();
        writeln!(s, "    type Error = {err};").unwrap();
        if i.style == CustomStyle::Assoc {
            writeln!(s, "    type ExecC = {ic};\n    type QueryC = {iq};").unwrap();
        }
        for (k, t) in conc.iter().enumerate() {
            writeln!(s, "    type {} = {t};", i.assoc_name(k)).unwrap();
        }
        for m in &i.methods {
            let Role::Handler(kind) = m.role else { continue };
            let custom_err = m.err == ErrTy::Custom && p.contract.error == ErrTy::Custom;
            let e = if custom_err { "CErr" } else { "StdError" };
            // in the impl all types are concrete
            let mut m2 = m.clone();
            m2.resp_explicit = false;
            let mut sg = sig(&m2, kind, &[], &conc, ic, iq, e, false);
            if resp_twin(m) {
                sg.ret = format!("Result<{}Twin, {e}>", resp_rust(m.resp, &conc));
            }
            let id = format!("{}::{}::{}", i.module, kind.attr(), m.name);
            let resp_conc = if resp_twin(m) { format!("{}Twin", resp_rust(m.resp, &conc)) } else { resp_rust(m.resp, &conc) };
            writeln!(s, "    fn {}({}) -> {} {{", m.name, sg.params, sg.ret).unwrap();
            writeln!(s, "        {}", echo_body(p, m, kind, &id, ic, iq, custom_err, &resp_conc)).unwrap();
            writeln!(s, "    }}").unwrap();
        }
        writeln!(s, "}}").unwrap();
    }

    // contract impl
    if p.contract.entry_points {
        let a = entry_points_attr(p);
        if a.is_empty() {
            writeln!(s, "#[entry_points]").unwrap();
        } else {
            writeln!(s, "#[entry_points({a})]").unwrap();
        }
    }
    writeln!(s, "#[contract]").unwrap();
    s.push_str(&render_contract_item(p));
    let _ = o;
    s
}

pub fn data_param_ty(mode: DataMode, t: &str) -> Option<String> {
    match mode {
        DataMode::Absent => None,
        DataMode::Raw => Some("Binary".into()),
        DataMode::RawOpt => Some("Option<Binary>".into()),
        DataMode::Typed => Some(t.to_string()),
        DataMode::Opt => Some(format!("Option<{t}>")),
        DataMode::Inst => Some("MsgInstantiateContractResponse".into()),
        DataMode::InstOpt => Some("Option<MsgInstantiateContractResponse>".into()),
    }
}

fn render_reply_method(p: &Program, m: &Method, params: &[String], c: &str, q: &str) -> String {
    let spec = m.reply.as_ref().expect("reply spec");
    let mut s = String::new();
    let custom_err = m.err == ErrTy::Custom && p.contract.error == ErrTy::Custom;
    let e = if custom_err { "CErr" } else { "StdError" };
    if !p.contract.replies {
        // legacy form (no `sv::features(replies)`): the handler receives the raw `Reply`
        let tail = if custom_err { ".map_err(to_cerr)" } else { "" };
        writeln!(s, "    #[sv::msg(reply)]").unwrap();
        let lctx = if q == "Empty" { "LegacyReplyCtx".to_string() } else { format!("LegacyReplyCtx<{q}>") };
        writeln!(s, "    fn {}(&self, ctx: {lctx}, reply: Reply) -> Result<{}, {e}> {{", m.name, resp_ty(c)).unwrap();
        writeln!(
            s,
            "        echo_mut::<{q}, {c}>(ctx.deps, &ctx.env, None, \"ctr::reply::{}\", \"reply\", vec![(\"reply\", svrt::j(&reply))], svrt::serde_json::Value::Null){tail}",
            m.name
        )
        .unwrap();
        writeln!(s, "    }}").unwrap();
        return s;
    }
    let mut attr = String::from("#[sv::msg(reply");
    if !spec.handlers.is_empty() {
        write!(attr, ", handlers=[{}]", spec.handlers.join(", ")).unwrap();
    }
    if !(spec.on == ReplyOn::Always && m.name.len() % 2 == 0) {
        write!(attr, ", reply_on={}", spec.on.attr()).unwrap();
    }
    attr.push_str(")]");
    let mut ps = format!("&self, ctx: {}", ctx_ty(Kind::Reply, q));
    let mut rec = String::new();
    match spec.on {
        ReplyOn::Success => {
            if let Some(t) = data_param_ty(spec.data, &spec.data_ty.rust(params, &[])) {
                // the flags of `sv::data` are an unordered set: half of the methods write them the
                // other way round (`opt, raw` / `opt, instantiate`)
                let mut da = spec.data.attr().unwrap().to_string();
                if m.name.len() % 2 == 0 {
                    da = da.replace("(raw, opt)", "(opt, raw)").replace("(instantiate, opt)", "(opt, instantiate)");
                }
                write!(ps, ", {da} data: {t}").unwrap();
                match spec.data {
                    DataMode::Inst => rec.push_str("(\"data\", svrt::inst_json(&data)), "),
                    DataMode::InstOpt => rec.push_str("(\"data\", svrt::inst_opt_json(&data)), "),
                    _ => rec.push_str("(\"data\", svrt::j(&data)), "),
                }
            }
        }
        ReplyOn::Error => {
            ps.push_str(", error: String");
            rec.push_str("(\"error\", svrt::j(&error)), ");
        }
        ReplyOn::Always => {
            ps.push_str(", result: SubMsgResult");
            rec.push_str("(\"result\", svrt::j(&result)), ");
        }
    }
    match &spec.payload {
        Payload::Raw => {
            ps.push_str(", #[sv::payload(raw)] payload: Binary");
            rec.push_str("(\"payload\", svrt::j(&payload)), ");
        }
        Payload::Typed(args) => {
            for a in args {
                write!(ps, ", {}: {}", a.name, a.ty.rust(params, &[])).unwrap();
                write!(rec, "(\"{}\", svrt::j(&{})), ", a.key(), a.name).unwrap();
            }
        }
    }
    let tail = if custom_err { ".map_err(to_cerr)" } else { "" };
    writeln!(s, "    {attr}").unwrap();
    writeln!(s, "    fn {}({ps}) -> Result<{}, {e}> {{", m.name, resp_ty(c)).unwrap();
    writeln!(
        s,
        "        echo_mut::<{q}, {c}>(ctx.deps, &ctx.env, None, \"ctr::reply::{}\", \"reply\", vec![{rec}], svrt::reply_extra(ctx.gas_used, &ctx.events, &ctx.msg_responses)){tail}",
        m.name
    )
    .unwrap();
    writeln!(s, "    }}").unwrap();
    s
}

fn dispatch_expr(kind: Kind, q: &str) -> (String, &'static str) {
    match kind {
        Kind::Exec | Kind::Instantiate => (format!("h.ctx3::<{q}>()"), "out_resp"),
        Kind::Sudo | Kind::Migrate | Kind::Reply => (format!("h.ctx2::<{q}>()"), "out_resp"),
        Kind::Query => (format!("h.qctx::<{q}>()"), "out_bin"),
    }
}

/// Glue: `pub fn program() -> svrt::Prog`.
pub fn render_glue(p: &Program, o: &RenderOpts) -> String {
    let mut s = String::new();
    let sv = &o.sv;
    let q = q_ty(p);
    let c = c_ty(p);
    let ctr = concrete_contract(p);
    let model_json = serde_json::to_string(p).unwrap();
    writeln!(s, "pub type CtrC = {ctr};").unwrap();
    writeln!(s, "pub const MODEL: &str = r####\"{model_json}\"####;").unwrap();
    writeln!(s, "#[allow(non_camel_case_types)]").unwrap();
    writeln!(s, "pub mod gl {{").unwrap();
    writeln!(s, "    use super::*;").unwrap();
    writeln!(s, "    use {sv}::types::ContractApi;").unwrap();
    writeln!(s, "    use {sv}::cw_schema::QueryResponses;").unwrap();
    writeln!(s, "    use svrt::svmodel::Kind;").unwrap();
    // type aliases
    let mut kinds0 = vec![Kind::Instantiate, Kind::Exec, Kind::Query, Kind::Sudo];
    if p.has_kind(0, Kind::Migrate) {
        kinds0.push(Kind::Migrate);
    }
    for k in &kinds0 {
        writeln!(s, "    pub type M0{} = <CtrC as ContractApi>::{};", k.accessor(), k.accessor()).unwrap();
    }
    for (n, i) in p.interfaces.iter().enumerate() {
        for k in Kind::ENUMS {
            writeln!(
                s,
                "    pub type M{}{} = <CtrC as {}::sv::InterfaceMessagesApi>::{};",
                n + 1,
                k.accessor(),
                i.module,
                k.accessor()
            )
            .unwrap();
        }
    }
    for k in Kind::ENUMS {
        writeln!(s, "    pub type W{} = <CtrC as ContractApi>::Contract{};", k.accessor(), k.accessor()).unwrap();
    }
    writeln!(s, "    pub fn program() -> svrt::Prog {{").unwrap();
    writeln!(s, "        let mut b = svrt::ProgBuilder::new(MODEL);").unwrap();
    // part ops
    for k in &kinds0 {
        let (ctx, out) = dispatch_expr(*k, q);
        let names = if k.is_enum() {
            format!("Some(|| svrt::names_vec(sv::{}_messages()))", k.ep())
        } else {
            "None".to_string()
        };
        let schemas = if *k == Kind::Query {
            ".with_schemas(|| <M0Query as QueryResponses>::response_schemas().map_err(|e| e.to_string()))"
        } else {
            ""
        };
        writeln!(
            s,
            "        b.part(0, Kind::{k:?}, svrt::Ops::<M0{acc}>::new({names}, |m, h| svrt::{out}(m.dispatch(&CtrC::new(), {ctx}))){schemas});",
            acc = k.accessor()
        )
        .unwrap();
    }
    for (n, i) in p.interfaces.iter().enumerate() {
        let (_ic, iq) = iface_cq(p, i);
        for k in Kind::ENUMS {
            let (ctx, out) = dispatch_expr(k, iq);
            let schemas = if k == Kind::Query {
                format!(".with_schemas(|| <M{}Query as QueryResponses>::response_schemas().map_err(|e| e.to_string()))", n + 1)
            } else {
                String::new()
            };
            writeln!(
                s,
                "        b.part({part}, Kind::{k:?}, svrt::Ops::<M{part}{acc}>::new(Some(|| svrt::names_vec({module}::sv::{ep}_messages())), |m, h| svrt::{out}(m.dispatch(&CtrC::new(), {ctx}))){schemas});",
                part = n + 1,
                acc = k.accessor(),
                module = i.module,
                ep = k.ep()
            )
            .unwrap();
        }
    }
    // wrappers
    for k in Kind::ENUMS {
        let (ctx, out) = dispatch_expr(k, q);
        let schemas = if k == Kind::Query {
            ".with_schemas(|| <WQuery as QueryResponses>::response_schemas().map_err(|e| e.to_string()))"
        } else {
            ""
        };
        writeln!(
            s,
            "        b.wrapper(Kind::{k:?}, svrt::Ops::<W{acc}>::new(None, |m, h| svrt::{out}(m.dispatch(&CtrC::new(), {ctx}))){schemas});",
            acc = k.accessor()
        )
        .unwrap();
        for part in 0..p.parts() {
            writeln!(
                s,
                "        b.wrap({part}, Kind::{k:?}, |m| Box::new(W{acc}::from(*m.downcast::<M{part}{acc}>().expect(\"part message\"))));",
                acc = k.accessor()
            )
            .unwrap();
        }
    }
    // a second instantiation of a generic contract (every concrete type argument replaced by
    // another one): its response tables, asked for in the same process (C16)
    if !p.contract.generics.is_empty() && !p.contract.lifetime {
        let alt: Vec<String> = p
            .contract
            .generics
            .iter()
            .map(|t| match t {
                Ty::Rec => "Choice",
                Ty::Choice => "MyMsg",
                _ => "Rec",
            })
            .map(|s| s.to_string())
            .collect();
        writeln!(s, "        type CtrAlt = Ctr<{}>;", alt.join(", ")).unwrap();
        writeln!(s, "        b.extra(\"alt_schemas\", svrt::AltSchemas(|| {{").unwrap();
        writeln!(s, "            let mut parts = vec![];").unwrap();
        writeln!(s, "            parts.push(<<CtrAlt as ContractApi>::Query as QueryResponses>::response_schemas().map_err(|e| e.to_string())?);").unwrap();
        for i in &p.interfaces {
            writeln!(s, "            parts.push(<<CtrAlt as {}::sv::InterfaceMessagesApi>::Query as QueryResponses>::response_schemas().map_err(|e| e.to_string())?);", i.module).unwrap();
        }
        writeln!(s, "            let w = <<CtrAlt as ContractApi>::ContractQuery as QueryResponses>::response_schemas().map_err(|e| e.to_string())?;").unwrap();
        writeln!(s, "            Ok((parts, w))").unwrap();
        writeln!(s, "        }}));").unwrap();
    }
    // builders
    for h in p.handlers() {
        let assoc_conc: Vec<String> =
            if h.part == 0 { vec![] } else { conc_names(&p.interfaces[h.part - 1].assoc) };
        let params_conc = conc_names(&p.contract.generics);
        writeln!(s, "        b.builder(\"{}\", |vp_args_| {{", h.id).unwrap();
        for (n, a) in h.args.iter().enumerate() {
            writeln!(
                s,
                "            let {}: {} = svrt::arg(vp_args_, {n})?;",
                a.name,
                a.ty.rust(&params_conc, &assoc_conc)
            )
            .unwrap();
        }
        let fields_clone: Vec<String> = h.args.iter().map(|a| format!("{}: {}.clone()", a.name, a.name)).collect();
        let vals: Vec<String> = h.args.iter().map(|a| a.name.clone()).collect();
        let mty = format!("M{}{}", h.part, h.kind.accessor());
        if h.kind.is_enum() {
            writeln!(
                s,
                "            Ok(svrt::Built::new({mty}::{v} {{ {f} }}, {mty}::{ctor}({vals})))",
                v = variant_ident(&h.name),
                f = fields_clone.join(", "),
                ctor = helper_ident(&h.name),
                vals = vals.join(", ")
            )
            .unwrap();
        } else {
            writeln!(
                s,
                "            Ok(svrt::Built::new({mty} {{ {f} }}, {mty}::new({vals})))",
                f = fields_clone.join(", "),
                vals = vals.join(", ")
            )
            .unwrap();
        }
        writeln!(s, "        }});").unwrap();
    }
    // remote helpers (C10)
    render_helpers(p, o, &mut s);
    render_reply_glue(p, o, &mut s);
    render_mt_glue(p, o, &mut s);
    // entry points + multitest Contract impl
    if p.contract.entry_points {
        let mut eps = vec![Kind::Instantiate, Kind::Exec, Kind::Query, Kind::Sudo];
        if p.has_kind(0, Kind::Migrate) {
            eps.push(Kind::Migrate);
        }
        if p.has_kind(0, Kind::Reply) && !p.contract.overrides.contains(&Kind::Reply) {
            writeln!(
                s,
                "        b.entry(Kind::Reply, |h, bytes| {{ svrt::log_clear(); let msg = svrt::serde_json::from_slice::<Reply>(bytes).map_err(|e| e.to_string())?; let (d, e) = h.ctx2::<{q}>(); let r = entry_points::reply(d, e, msg); Ok(svrt::out_resp(r)) }});"
            )
            .unwrap();
        }
        for k in eps {
            if p.contract.overrides.contains(&k) {
                continue;
            }
            let mty = if k.is_enum() { format!("W{}", k.accessor()) } else { format!("M0{}", k.accessor()) };
            let (call, out) = match k {
                Kind::Exec | Kind::Instantiate => (format!("let (d, e, i) = h.ctx3::<{q}>(); let r = entry_points::{}(d, e, i, msg);", k.ep()), "out_resp"),
                Kind::Query => (format!("let (d, e) = h.qctx::<{q}>(); let r = entry_points::{}(d, e, msg);", k.ep()), "out_bin"),
                _ => (format!("let (d, e) = h.ctx2::<{q}>(); let r = entry_points::{}(d, e, msg);", k.ep()), "out_resp"),
            };
            writeln!(
                s,
                "        b.entry(Kind::{k:?}, |h, bytes| {{ svrt::log_clear(); let msg = {sv}::cw_std::from_json::<{mty}>(bytes).map_err(|e| e.to_string())?; {call} Ok(svrt::{out}(r)) }});"
            )
            .unwrap();
        }
    }
    for k in [Kind::Instantiate, Kind::Exec, Kind::Query, Kind::Sudo, Kind::Migrate, Kind::Reply] {
        writeln!(
            s,
            "        b.mt_entry(Kind::{k:?}, |h, bytes| svrt::mt_call::<CtrC, {c}, {q}>(&CtrC::new(), Kind::{k:?}, h, bytes));"
        )
        .unwrap();
    }
    writeln!(s, "        b.finish()\n    }}\n}}").unwrap();
    s
}

/// Whole module text for one program.
pub fn render_module(p: &Program, o: &RenderOpts) -> String {
    let mut s = String::new();
    writeln!(s, "// generated by svgen -- program {}", p.id).unwrap();
    writeln!(s, "#![allow(unused_imports, unused_variables, dead_code, clippy::all, non_snake_case, deprecated)]").unwrap();
    writeln!(s, "use svrt::prelude::*;").unwrap();
    writeln!(s, "use {}::{{contract, entry_points, interface}};", o.sv).unwrap();
    s.push_str(&render_source(p, o));
    if o.glue {
        s.push_str(&render_glue(p, o));
    }
    s
}

fn dyn_iface(p: &Program, i: &Interface) -> String {
    let (ic, iq) = iface_cq(p, i);
    let mut binds = vec![format!("Error = {}", err_ty(p))];
    if i.style == CustomStyle::Assoc {
        binds.push(format!("ExecC = {ic}"));
        binds.push(format!("QueryC = {iq}"));
    }
    for (k, t) in conc_names(&i.assoc).iter().enumerate() {
        binds.push(format!("{} = {t}", i.assoc_name(k)));
    }
    format!("dyn {}::{}<{}>", i.module, i.trait_name, binds.join(", "))
}

/// Glue for the executor / querier / instantiate-builder helpers.
fn render_helpers(p: &Program, o: &RenderOpts, s: &mut String) {
    let sv = &o.sv;
    let q = q_ty(p);
    let gens = conc_names(&p.contract.generics);
    let ctr_trait_args = if gens.is_empty() { String::new() } else { format!("<{}>", gens.join(", ")) };
    for h in p.handlers() {
        if h.kind != Kind::Exec && h.kind != Kind::Query {
            continue;
        }
        let assoc_conc: Vec<String> = if h.part == 0 { vec![] } else { conc_names(&p.interfaces[h.part - 1].assoc) };
        let mut decode = String::new();
        for (n, a) in h.args.iter().enumerate() {
            writeln!(decode, "            let {}: {} = svrt::arg(vp_args_, {n})?;", a.name, a.ty.rust(&gens, &assoc_conc)).unwrap();
        }
        let vals: Vec<String> = h.args.iter().map(|a| a.name.clone()).collect();
        let helper = helper_ident(&h.name);
        // (label, handle type, trait path)
        let mut variants: Vec<(String, String, String)> = vec![];
        if h.part == 0 {
            let tr = if h.kind == Kind::Exec { format!("sv::Executor{ctr_trait_args}") } else { format!("sv::Querier{ctr_trait_args}") };
            variants.push(("ctr".into(), "CtrC".into(), tr));
        } else {
            let i = &p.interfaces[h.part - 1];
            let tr = if h.kind == Kind::Exec { format!("{}::sv::Executor", i.module) } else { format!("{}::sv::Querier", i.module) };
            variants.push(("ctr".into(), "CtrC".into(), tr.clone()));
            variants.push(("dyn".into(), dyn_iface(p, i), tr));
        }
        for (label, handle, tr) in variants {
            if h.kind == Kind::Exec {
                writeln!(s, "        b.extra(\"exec:{}:{label}\", svrt::ExecHelper(Box::new(|vp_addr_, vp_funds_, vp_args_| {{", h.id).unwrap();
                s.push_str(&decode);
                writeln!(s, "            let vp_remote_ = {sv}::types::Remote::<{handle}>::new(Addr::unchecked(vp_addr_));").unwrap();
                // the funds setter replaces: for an odd number of coins it is first called with other funds
                writeln!(s, "            let vp_b_ = match vp_funds_ {{ Some(f) if f.len() % 2 == 1 => vp_remote_.executor().with_funds(vec![Coin {{ denom: \"vp_stale\".into(), amount: Uint128::new(3) }}]).with_funds(f), Some(f) => vp_remote_.executor().with_funds(f), None => vp_remote_.executor() }};").unwrap();
                writeln!(
                    s,
                    "            let vp_ready_ = <{sv}::types::ExecutorBuilder<({sv}::types::EmptyExecutorBuilderState, {handle})> as {tr}>::{helper}(vp_b_, {}).map_err(|e| e.to_string())?;",
                    vals.join(", ")
                )
                .unwrap();
                writeln!(s, "            Ok(vp_ready_.build())\n        }})));").unwrap();
            } else {
                writeln!(s, "        b.extra(\"query:{}:{label}\", svrt::QueryHelper(Box::new(|vp_h_, vp_addr_, vp_args_| {{", h.id).unwrap();
                s.push_str(&decode);
                writeln!(s, "            let vp_qw_ = {sv}::cw_std::QuerierWrapper::<{q}>::new(&vp_h_.querier);").unwrap();
                writeln!(s, "            let vp_a_ = Addr::unchecked(vp_addr_);").unwrap();
                writeln!(s, "            let vp_remote_ = {sv}::types::Remote::<{handle}>::borrowed(&vp_a_);").unwrap();
                writeln!(s, "            let vp_bq_ = vp_remote_.querier(&vp_qw_);").unwrap();
                writeln!(
                    s,
                    "            let vp_r_ = <{sv}::types::BoundQuerier<{q}, {handle}> as {tr}>::{helper}(&vp_bq_, {}).map_err(|e| e.to_string())?;",
                    vals.join(", ")
                )
                .unwrap();
                writeln!(s, "            Ok(svrt::j(&vp_r_))\n        }})));").unwrap();
            }
        }
    }
    // instantiate builder
    if let Some(h) = p.handlers().into_iter().find(|h| h.kind == Kind::Instantiate) {
        writeln!(s, "        b.extra(\"inst_builder\", svrt::InstHelper(Box::new(|vp_code_, vp_args_| {{").unwrap();
        for (n, a) in h.args.iter().enumerate() {
            writeln!(s, "            let {}: {} = svrt::arg(vp_args_, {n})?;", a.name, a.ty.rust(&gens, &[])).unwrap();
        }
        let vals: Vec<String> = h.args.iter().map(|a| a.name.clone()).collect();
        writeln!(
            s,
            "            <{sv}::builder::instantiate::InstantiateBuilder as sv::CtrInstantiateBuilder>::ctr(vp_code_, {}).map_err(|e| e.to_string())\n        }})));",
            vals.join(", ")
        )
        .unwrap();
    }
}

pub fn reply_const(name: &str) -> String {
    use convert_case::{Case, Casing};
    format!("{}_REPLY_ID", name.to_case(Case::UpperSnake))
}

fn render_reply_glue(p: &Program, o: &RenderOpts, s: &mut String) {
    if !p.contract.replies {
        return;
    }
    let sv = &o.sv;
    let q = q_ty(p);
    let c = c_ty(p);
    let gens = conc_names(&p.contract.generics);
    let table = p.reply_table();
    let ids: Vec<String> = table.iter().map(|r| format!("(\"{}\".to_string(), sv::{})", r.name, reply_const(&r.name))).collect();
    writeln!(s, "        b.extra(\"reply_ids\", svrt::ReplyIds(vec![{}]));", ids.join(", ")).unwrap();
    writeln!(
        s,
        "        b.extra(\"dispatch_reply\", svrt::ReplyDispatch(Box::new(|h, reply| {{ svrt::log_clear(); let (d, e) = h.ctx2::<{q}>(); svrt::out_resp(sv::dispatch_reply(d, e, reply, CtrC::new())) }})));"
    )
    .unwrap();
    let methods = p.reply_methods();
    for row in &table {
        // payload signature of this handler name: taken from any method covering it
        let m = methods
            .iter()
            .find(|m| Some(&m.name) == row.ok.as_ref() || Some(&m.name) == row.err.as_ref())
            .expect("covering method");
        let mut decode = String::new();
        let mut vals = vec![];
        match &m.spec.payload {
            Payload::Raw => {
                decode.push_str("            let vp_p0_: Binary = svrt::arg(vp_args_, 0)?;\n");
                vals.push("vp_p0_".to_string());
            }
            Payload::Typed(args) => {
                for (n, a) in args.iter().enumerate() {
                    writeln!(decode, "            let vp_p{n}_: {} = svrt::arg(vp_args_, {n})?;", a.ty.rust(&gens, &[])).unwrap();
                    vals.push(format!("vp_p{n}_"));
                }
            }
        }
        let vals = vals.join(", ");
        writeln!(s, "        b.extra(\"submsg:{}\", svrt::SubMsgHelper(Box::new(|vp_recv_, vp_args_| {{", row.name).unwrap();
        s.push_str(&decode);
        writeln!(s, "            let vp_r_: StdResult<{sv}::cw_std::SubMsg<{c}>> = match vp_recv_ {{").unwrap();
        writeln!(s, "                svrt::Recv::Sub(sp) => <{sv}::cw_std::SubMsg<{c}> as sv::SubMsgMethods<{c}>>::{}(svrt::sub_msg_of::<{c}>(sp), {vals}),", row.name).unwrap();
        writeln!(s, "                svrt::Recv::Wasm(sp) => <{sv}::cw_std::WasmMsg as sv::SubMsgMethods<{c}>>::{}(svrt::wasm_msg_of(sp), {vals}),", row.name).unwrap();
        writeln!(s, "                svrt::Recv::Cosmos(sp) => <{sv}::cw_std::CosmosMsg<{c}> as sv::SubMsgMethods<{c}>>::{}(svrt::cosmos_msg_of::<{c}>(sp), {vals}),", row.name).unwrap();
        writeln!(s, "            }};").unwrap();
        writeln!(s, "            vp_r_.map(|m| svrt::j(&m)).map_err(|e| e.to_string())\n        }})));").unwrap();
    }
}

/// Glue for C12: typed multitest proxy calls.
fn render_mt_glue(p: &Program, o: &RenderOpts, s: &mut String) {
    if !p.contract.entry_points || p.contract.replies || !p.contract.overrides.is_empty() {
        return;
    }
    let sv = &o.sv;
    let (c, q) = (c_ty(p), q_ty(p));
    let gens = conc_names(&p.contract.generics);
    let gen_args: String = gens.iter().map(|g| format!("{g}, ")).collect();
    let app = format!("{sv}::cw_multi_test::BasicApp<{c}, {q}>");
    let proxy = format!("{sv}::multitest::Proxy<'_, {app}, CtrC>");
    writeln!(s, "        b.extra(\"mt_world\", svrt::MtFactory(Box::new(|vp_bal_| {{").unwrap();
    writeln!(s, "            let mut g = svrt::MtGlue::<{c}, {q}> {{").unwrap();
    let migrate = p.has_kind(0, Kind::Migrate);
    writeln!(
        s,
        "                raw_contract: Box::new(|| Box::new({sv}::cw_multi_test::ContractWrapper::new(entry_points::execute, entry_points::instantiate, entry_points::query).with_sudo(entry_points::sudo){})),",
        if migrate { ".with_migrate(entry_points::migrate)" } else { "" }
    )
    .unwrap();
    writeln!(s, "                store: Box::new(|vp_app_| sv::mt::CodeId::<CtrC, {app}>::store_code(vp_app_).code_id()),").unwrap();
    // instantiate
    let inst = p.handlers().into_iter().find(|h| h.kind == Kind::Instantiate).expect("instantiate");
    writeln!(s, "                instantiate: Box::new(|vp_app_, vp_args_, vp_o_, vp_sender_| {{").unwrap();
    for (n, a) in inst.args.iter().enumerate() {
        writeln!(s, "                    let {}: {} = svrt::arg(vp_args_, {n}).map_err(svrt::harness_err)?;", a.name, a.ty.rust(&gens, &[])).unwrap();
    }
    let vals: Vec<String> = inst.args.iter().map(|a| a.name.clone()).collect();
    writeln!(s, "                    let vp_code_ = sv::mt::CodeId::<CtrC, {app}>::store_code(vp_app_);").unwrap();
    writeln!(s, "                    let vp_id_ = vp_code_.code_id();").unwrap();
    writeln!(s, "                    let mut vp_ip_ = vp_code_.instantiate({});", vals.join(", ")).unwrap();
    writeln!(s, "                    for vp_pa_ in &vp_o_.pre_admin {{ vp_ip_ = vp_ip_.with_admin(vp_pa_.as_deref()); }}").unwrap();
    writeln!(s, "                    for vp_ps_ in &vp_o_.pre_salt {{ vp_ip_ = vp_ip_.with_salt(vp_ps_.as_deref()); }}").unwrap();
    writeln!(s, "                    if let Some(l) = &vp_o_.label {{ vp_ip_ = vp_ip_.with_label(l); }}").unwrap();
    writeln!(s, "                    if let Some(a) = &vp_o_.admin {{ vp_ip_ = vp_ip_.with_admin(a.as_str()); }} else if !vp_o_.pre_admin.is_empty() {{ vp_ip_ = vp_ip_.with_admin(None); }}").unwrap();
    writeln!(s, "                    if let Some(f) = &vp_o_.funds {{ vp_ip_ = vp_ip_.with_funds(f); }}").unwrap();
    writeln!(s, "                    if let Some(x) = &vp_o_.salt {{ vp_ip_ = vp_ip_.with_salt(x.as_slice()); }} else if !vp_o_.pre_salt.is_empty() {{ vp_ip_ = vp_ip_.with_salt(None); }}").unwrap();
    writeln!(s, "                    vp_ip_.call(vp_sender_).map(|p| (vp_id_, p.contract_addr)).map_err(|e| svrt::ErrView::view(&e))").unwrap();
    writeln!(s, "                }}),").unwrap();
    writeln!(s, "                exec: Default::default(), query: Default::default(), sudo: Default::default(), migrate: None,").unwrap();
    writeln!(s, "            }};").unwrap();
    for h in p.handlers() {
        let assoc_conc: Vec<String> = if h.part == 0 { vec![] } else { conc_names(&p.interfaces[h.part - 1].assoc) };
        let tr = if h.part == 0 {
            format!("sv::mt::CtrProxy<'_, {gen_args}{app}>")
        } else {
            let i = &p.interfaces[h.part - 1];
            format!("{}::sv::mt::{}Proxy<{app}, {c}>", i.module, i.trait_name)
        };
        let mut decode = String::new();
        for (n, a) in h.args.iter().enumerate() {
            writeln!(decode, "                let {}: {} = svrt::arg(vp_args_, {n}).map_err(svrt::harness_err)?;", a.name, a.ty.rust(&gens, &assoc_conc)).unwrap();
        }
        let vals: Vec<String> = h.args.iter().map(|a| a.name.clone()).collect();
        let helper = helper_ident(&h.name);
        let mk_proxy = format!("                let vp_p_: {proxy} = {sv}::multitest::Proxy::new(vp_c_.clone(), vp_app_);\n");
        match h.kind {
            Kind::Exec => {
                writeln!(s, "            g.exec.insert(\"{}\".to_string(), Box::new(|vp_app_, vp_c_, vp_args_, vp_funds_, vp_sender_| {{", h.id).unwrap();
                s.push_str(&decode);
                s.push_str(&mk_proxy);
                writeln!(s, "                <{proxy} as {tr}>::{helper}(&vp_p_, {}).with_funds(vp_funds_).call(vp_sender_).map_err(|e| svrt::ErrView::view(&e))", vals.join(", ")).unwrap();
                writeln!(s, "            }}));").unwrap();
            }
            Kind::Query => {
                writeln!(s, "            g.query.insert(\"{}\".to_string(), Box::new(|vp_app_, vp_c_, vp_args_| {{", h.id).unwrap();
                s.push_str(&decode);
                s.push_str(&mk_proxy);
                writeln!(s, "                <{proxy} as {tr}>::{helper}(&vp_p_, {}).map(|r| svrt::j(&r)).map_err(|e| svrt::ErrView::view(&e))", vals.join(", ")).unwrap();
                writeln!(s, "            }}));").unwrap();
            }
            Kind::Sudo => {
                writeln!(s, "            g.sudo.insert(\"{}\".to_string(), Box::new(|vp_app_, vp_c_, vp_args_| {{", h.id).unwrap();
                s.push_str(&decode);
                s.push_str(&mk_proxy);
                writeln!(s, "                <{proxy} as {tr}>::{helper}(&vp_p_, {}).map_err(|e| svrt::ErrView::view(&e))", vals.join(", ")).unwrap();
                writeln!(s, "            }}));").unwrap();
            }
            Kind::Migrate => {
                writeln!(s, "            g.migrate = Some(Box::new(|vp_app_, vp_c_, vp_args_, vp_sender_, vp_code_| {{").unwrap();
                s.push_str(&decode);
                s.push_str(&mk_proxy);
                writeln!(s, "                <{proxy} as {tr}>::{helper}(&vp_p_, {}).call(vp_sender_, vp_code_).map_err(|e| svrt::ErrView::view(&e))", vals.join(", ")).unwrap();
                writeln!(s, "            }}));").unwrap();
            }
            _ => {}
        }
    }
    writeln!(s, "            Box::new(svrt::World::<{c}, {q}>::new(g, vp_bal_)) as Box<dyn svrt::MtWorld>").unwrap();
    writeln!(s, "        }})));").unwrap();
}
