//! Program-level shrinking of E2 failures.
//!
//! proptest shrinks the failing *value* inside the corpus binary; the failing *program* is
//! shrunk here by bounded delta debugging over deletion atoms of the program model (an
//! interface, a method, an argument, the override / attribute decorations).  Every round
//! renders all candidates into one corpus (one library crate per candidate, so a candidate
//! that no longer compiles does not take the others down), runs the same property with the
//! same seed and case budget, and keeps a candidate iff it fails *with the same key* (for a
//! compile regression: with the same rustc message).  Deletions only: a candidate is always a
//! program the generator could have produced, and its oracle is recomputed from its own model.

use crate::check::Ctx;
use crate::corpus::{self, CorpusSpec};
use serde_json::{json, Value};
use std::collections::BTreeSet;
use std::path::Path;
use std::process::Command;
use std::time::Instant;
use svmodel::{Kind, Program, Role};

#[derive(Clone, Debug, PartialEq, Eq, PartialOrd, Ord)]
pub enum Atom {
    Iface(usize),
    /// (part, index in that part's method list)
    Method(usize, usize),
    /// (part, method index, argument index)
    Arg(usize, usize, usize),
    Overrides,
    Attrs,
}

pub enum Target {
    /// a failure reported by the corpus binary under this key
    Runtime { key: String },
    /// the program does not compile with this rustc message
    Compile { message: String },
}

pub struct ShrinkSpec<'a> {
    pub family: &'a str,
    pub exe_prop: &'a str,
    pub cases: u32,
    pub alias: Option<&'a str>,
    /// no further round is started once this much time has been spent
    pub budget_s: u64,
}

pub struct Shrunk {
    pub program: Program,
    /// runtime targets: the failure record of the shrunk program (salt, case, detail, what)
    pub failure: Option<Value>,
    /// compile targets: the messages of the shrunk program
    pub errors: Vec<String>,
    pub stats: Value,
}

fn atoms_of(p: &Program) -> Vec<Atom> {
    let mut first = vec![];
    let mut second = vec![];
    for i in 0..p.interfaces.len() {
        first.push(Atom::Iface(i));
    }
    for part in 0..p.parts() {
        for (j, m) in p.methods_of(part).iter().enumerate() {
            if part == 0 && m.role == Role::Handler(Kind::Instantiate) {
                // exactly one instantiate handler is a precondition of every contract
            } else {
                first.push(Atom::Method(part, j));
            }
            if m.reply.is_none() {
                for k in 0..m.args.len() {
                    second.push(Atom::Arg(part, j, k));
                }
            }
        }
    }
    if !p.contract.overrides.is_empty() {
        first.push(Atom::Overrides);
    }
    let has_attrs = !p.contract.msg_attrs.is_empty()
        || p.interfaces.iter().any(|i| !i.msg_attrs.is_empty())
        || (0..p.parts()).any(|part| p.methods_of(part).iter().any(|m| !m.variant_attrs.is_empty() || m.args.iter().any(|a| !a.attrs.is_empty())));
    if has_attrs {
        first.push(Atom::Attrs);
    }
    first.extend(second);
    first
}

pub fn apply(orig: &Program, atoms: &BTreeSet<Atom>, id: &str) -> Program {
    let mut p = orig.clone();
    p.id = id.to_string();
    if atoms.contains(&Atom::Overrides) {
        p.contract.overrides.clear();
    }
    let strip = atoms.contains(&Atom::Attrs);
    if strip {
        p.contract.msg_attrs.clear();
    }
    let nparts = orig.parts();
    for part in 0..nparts {
        let methods = if part == 0 { &mut p.contract.methods } else { &mut p.interfaces[part - 1].methods };
        let mut kept = vec![];
        for (j, mut m) in std::mem::take(methods).into_iter().enumerate() {
            if atoms.contains(&Atom::Method(part, j)) {
                continue;
            }
            let mut args = vec![];
            for (k, mut a) in std::mem::take(&mut m.args).into_iter().enumerate() {
                if atoms.contains(&Atom::Arg(part, j, k)) {
                    continue;
                }
                if strip {
                    a.attrs.clear();
                }
                args.push(a);
            }
            m.args = args;
            if strip {
                m.variant_attrs.clear();
            }
            kept.push(m);
        }
        *methods = kept;
        if strip && part > 0 {
            p.interfaces[part - 1].msg_attrs.clear();
        }
    }
    let mut i = 0;
    p.interfaces.retain(|_| {
        let keep = !atoms.contains(&Atom::Iface(i));
        i += 1;
        keep
    });
    p
}

pub fn size(p: &Program) -> (usize, usize, usize) {
    let methods: usize = (0..p.parts()).map(|x| p.methods_of(x).len()).sum();
    let args: usize = (0..p.parts()).map(|x| p.methods_of(x).iter().map(|m| m.args.len()).sum::<usize>()).sum();
    (p.interfaces.len(), methods, args)
}

struct RoundOut {
    /// per candidate: Some(failure / errors) iff it fails the same way
    hits: Vec<Option<(Option<Value>, Vec<String>)>>,
}

fn norm_msg(m: &str) -> String {
    // candidate ids differ: compare messages with program ids and digits of paths removed
    m.split_whitespace().filter(|w| !w.contains("p_") && !w.contains("::sv::")).collect::<Vec<_>>().join(" ")
}

fn run_round(ctx: &Ctx, spec: &ShrinkSpec, target: &Target, cands: &[Program], round: usize) -> Option<RoundOut> {
    let name = format!("shrink_{}", spec.family);
    let n = cands.len();
    let mut skip: Vec<usize> = vec![];
    let mut errs_of: Vec<Vec<String>> = vec![vec![]; n];
    let cspec = CorpusSpec { name: &name, programs: cands, alias: spec.alias, extra_files: vec![], bin_skip: vec![] };
    let dir = corpus::write_corpus(&cspec, n);
    let build = corpus::cargo_build(&dir, &["--keep-going"], "corpus");
    let mut exe = build.exe.clone();
    if !build.ok {
        for e in &build.errors {
            let stem = Path::new(&e.file).file_stem().map(|s| s.to_string_lossy().to_string()).unwrap_or_default();
            if let Some(i) = cands.iter().position(|c| c.id == stem) {
                errs_of[i].push(e.message.clone());
                if !skip.contains(&i) {
                    skip.push(i);
                }
            }
        }
        if skip.is_empty() {
            eprintln!("shrink round {round}: build failed outside candidates; giving up");
            return None;
        }
        if skip.len() == n {
            exe = None;
        } else {
            let cspec = CorpusSpec { name: &name, programs: cands, alias: spec.alias, extra_files: vec![], bin_skip: skip.clone() };
            corpus::write_corpus(&cspec, n);
            let b2 = corpus::cargo_build(&dir, &["-p", &format!("corp_{name}")], "corpus");
            if !b2.ok {
                eprintln!("shrink round {round}: second build failed; giving up");
                return None;
            }
            exe = b2.exe;
        }
    }
    let mut hits: Vec<Option<(Option<Value>, Vec<String>)>> = vec![None; n];
    match target {
        Target::Compile { message } => {
            let want = norm_msg(message);
            for i in 0..n {
                if errs_of[i].iter().any(|m| norm_msg(m) == want) {
                    hits[i] = Some((None, errs_of[i].clone()));
                }
            }
        }
        Target::Runtime { key } => {
            let Some(exe) = exe else { return Some(RoundOut { hits }) };
            let report_path = dir.join("report_shrink.json");
            let _ = std::fs::remove_file(&report_path);
            let mut cmd = Command::new(&exe);
            cmd.arg("--prop").arg(spec.exe_prop).arg("--seed").arg(ctx.seed.to_string()).arg("--cases").arg(spec.cases.to_string()).arg("--out").arg(&report_path);
            for k in ctx.known_keys() {
                cmd.arg("--known").arg(k);
            }
            cmd.env("RUST_BACKTRACE", "0");
            let res = crate::check::run_with_timeout(cmd, 900)?;
            if !res.status.success() {
                return None;
            }
            let rep: Value = serde_json::from_str(&std::fs::read_to_string(&report_path).ok()?).ok()?;
            for f in rep["failures"].as_array().cloned().unwrap_or_default() {
                if f["detail"]["known"].as_bool().unwrap_or(false) || f["key"].as_str() != Some(key) {
                    continue;
                }
                if let Some(i) = cands.iter().position(|c| Some(c.id.as_str()) == f["program"].as_str()) {
                    if hits[i].is_none() {
                        hits[i] = Some((Some(f.clone()), vec![]));
                    }
                }
            }
        }
    }
    Some(RoundOut { hits })
}

/// Bounded delta debugging: at most four corpus builds, at most `MAX_CANDS` candidates each.
pub fn shrink(ctx: &Ctx, spec: &ShrinkSpec, target: &Target, orig: &Program) -> Option<Shrunk> {
    const MAX_CANDS: usize = 96;
    let t0 = Instant::now();
    let atoms = atoms_of(orig);
    if atoms.is_empty() {
        return None;
    }
    let mut built = 0usize;
    let mut rounds = 0usize;
    let base = orig.id.clone();
    let mk = |sets: &[BTreeSet<Atom>], round: usize| -> Vec<Program> { sets.iter().enumerate().map(|(i, s)| apply(orig, s, &format!("{base}_s{round}_{i:02}"))).collect() };

    // round 1: every atom alone
    let singles: Vec<BTreeSet<Atom>> = atoms.iter().take(MAX_CANDS).map(|a| [a.clone()].into_iter().collect()).collect();
    let cands = mk(&singles, 1);
    built += cands.len();
    rounds += 1;
    let r1 = run_round(ctx, spec, target, &cands, 1)?;
    let removable: Vec<Atom> = singles.iter().zip(&r1.hits).filter(|(_, h)| h.is_some()).map(|(s, _)| s.iter().next().unwrap().clone()).collect();
    let mut best: Option<(BTreeSet<Atom>, Program, (Option<Value>, Vec<String>))> = None;
    if let Some(i) = r1.hits.iter().position(|h| h.is_some()) {
        best = Some((singles[i].clone(), cands[i].clone(), r1.hits[i].clone().unwrap()));
    }
    if removable.len() > 1 && t0.elapsed().as_secs() < spec.budget_s {
        // round 2: all removable atoms together, then halves / quarters / eighths
        let mut sets: Vec<BTreeSet<Atom>> = vec![removable.iter().cloned().collect()];
        for parts in [2usize, 4, 8] {
            if removable.len() >= parts {
                let chunk = removable.len().div_ceil(parts);
                for c in removable.chunks(chunk) {
                    let s: BTreeSet<Atom> = c.iter().cloned().collect();
                    if !sets.contains(&s) {
                        sets.push(s);
                    }
                    // complement of the chunk (classic ddmin step)
                    let comp: BTreeSet<Atom> = removable.iter().filter(|a| !c.contains(a)).cloned().collect();
                    if !comp.is_empty() && !sets.contains(&comp) {
                        sets.push(comp);
                    }
                }
            }
        }
        sets.truncate(MAX_CANDS);
        let cands = mk(&sets, 2);
        built += cands.len();
        rounds += 1;
        if let Some(r2) = run_round(ctx, spec, target, &cands, 2) {
            let mut pick: Option<usize> = None;
            for (i, h) in r2.hits.iter().enumerate() {
                if h.is_some() && pick.map(|j| sets[i].len() > sets[j].len()).unwrap_or(true) {
                    pick = Some(i);
                }
            }
            if let Some(i) = pick {
                best = Some((sets[i].clone(), cands[i].clone(), r2.hits[i].clone().unwrap()));
            }
        }
        // round 3: extend the current set by each remaining removable atom; round 4: their union
        if let Some((cur, _, _)) = best.clone() {
            let rest: Vec<Atom> = removable.iter().filter(|a| !cur.contains(a)).cloned().collect();
            if !rest.is_empty() && t0.elapsed().as_secs() < spec.budget_s {
                let sets: Vec<BTreeSet<Atom>> = rest
                    .iter()
                    .take(MAX_CANDS)
                    .map(|a| {
                        let mut s = cur.clone();
                        s.insert(a.clone());
                        s
                    })
                    .collect();
                let cands = mk(&sets, 3);
                built += cands.len();
                rounds += 1;
                if let Some(r3) = run_round(ctx, spec, target, &cands, 3) {
                    let ok: Vec<usize> = (0..sets.len()).filter(|i| r3.hits[*i].is_some()).collect();
                    if let Some(&i) = ok.first() {
                        best = Some((sets[i].clone(), cands[i].clone(), r3.hits[i].clone().unwrap()));
                    }
                    if ok.len() > 1 && t0.elapsed().as_secs() < spec.budget_s {
                        let mut union = cur.clone();
                        for i in &ok {
                            union.extend(sets[*i].iter().cloned());
                        }
                        let mut sets4 = vec![union];
                        // prefixes of the extension list, longest first
                        for cut in [ok.len() * 3 / 4, ok.len() / 2, ok.len() / 4] {
                            if cut >= 2 {
                                let mut s = cur.clone();
                                for i in ok.iter().take(cut) {
                                    s.extend(sets[*i].iter().cloned());
                                }
                                if !sets4.contains(&s) {
                                    sets4.push(s);
                                }
                            }
                        }
                        let cands = mk(&sets4, 4);
                        built += cands.len();
                        rounds += 1;
                        if let Some(r4) = run_round(ctx, spec, target, &cands, 4) {
                            if let Some(i) = (0..sets4.len()).find(|i| r4.hits[*i].is_some()) {
                                best = Some((sets4[i].clone(), cands[i].clone(), r4.hits[i].clone().unwrap()));
                            }
                        }
                    }
                }
            }
        }
    }
    let (set, program, (failure, errors)) = best?;
    let stats = json!({
        "technique": "bounded delta debugging over deletion atoms of the program model",
        "rounds": rounds,
        "candidates_built": built,
        "atoms": atoms.len(),
        "atoms_removed": set.len(),
        "size_before": {"interfaces": size(orig).0, "methods": size(orig).1, "arguments": size(orig).2},
        "size_after": {"interfaces": size(&program).0, "methods": size(&program).1, "arguments": size(&program).2},
        "wall_s": t0.elapsed().as_secs_f64(),
    });
    Some(Shrunk { program, failure, errors, stats })
}
