//! C13: generated impl blocks / traits with rich surface syntax, rendered twice from one
//! structure -- as written, and as the macros must re-emit them (framework attributes and
//! handler-parameter attributes left out) -- plus the annotated items of the real sources.

use svmodel::tape::Tape;

#[derive(Clone, Debug, serde::Serialize, serde::Deserialize)]
pub struct SurfaceCase {
    /// "contract" | "interface" | "entry_points"
    pub which: String,
    pub attr: String,
    pub written: String,
    pub expected: String,
    /// classes for the evidence histogram
    pub tags: Vec<String>,
}

const FOREIGN_ITEM_ATTRS: &[&str] = &[
    "#[allow(dead_code)]",
    "#[cfg(not(feature = \"library\"))]",
    "#[doc = \"contract docs\"]",
    "/// a doc comment line",
    "#[rustfmt::skip]",
    "#[other::msg(exec)]",
    "#[sv_ext::custom(x)]",
    "#[deprecated(note = \"x\")]",
    "#[cfg_attr(test, allow(unused))]",
    "#[svx::error(E)]",
    // attributes that mention what the macros themselves emit or consume
    "#[allow(clippy::new_without_default)]",
    "#[allow(clippy::new_without_default, overflowing_literals)]",
    "#[allow(clippy::too_many_arguments, clippy::new_without_default, dead_code)]",
    "#[cfg_attr(not(feature = \"library\"), allow(clippy::new_without_default))]",
    "#[doc = \"#[sv::msg(exec)] in a doc string\"]",
];
const FOREIGN_FN_ATTRS: &[&str] = &[
    "#[inline]",
    "#[must_use]",
    "#[allow(unused_variables)]",
    "#[cfg(test)]",
    "/// method docs",
    "#[doc(hidden)]",
    "#[track_caller]",
    "#[other::attr(serde(skip))]",
    "#[msg(exec)]",
    "#[allow(clippy::new_without_default, unused_variables)]",
    "#[doc = \"sv::msg(query)\"]",
];
const PARAM_ATTRS: &[&str] = &["#[serde(default)]", "#[allow(unused)]", "#[doc = \"p\"]", "#[cfg_attr(test, allow(unused))]", "#[serde(rename = \"z\")]"];
const VIS: &[&str] = &["", "pub ", "pub(crate) ", "pub(super) "];
const TYPES: &[&str] = &["u32", "String", "Option<Addr>", "Vec<(u8, String)>", "Box<dyn Fn(u32) -> u32>", "&'static str", "[u8; 4]", "T"];
const BODIES: &[&str] = &[
    "{ todo!() }",
    "{ let f = |x: u32| -> u32 { x + 1 }; let _ = f(1); Ok(Response::new()) }",
    "{ fn inner(#[allow(unused)] z: u8) -> u8 { z } struct Local { a: u8 } let _ = Local { a: inner(1) }; unimplemented!() }",
    "{ #[allow(unused)] let v = vec![1, 2, 3]; match v.len() { 0 => todo!(), n if n > 2 => { loop { break; } todo!() } _ => todo!() } }",
    "{ const K: u32 = 3; if K > 2 { return Err(StdError::generic_err(\"x\").into()); } Ok(Default::default()) }",
    "{ let s = \"#[sv::msg(exec)] inside a string\"; let _ = s; todo!() }",
    "{ #![allow(unused_variables, non_snake_case)] let Unused = 1; todo!() }",
];

fn pick<'a>(t: &mut Tape, xs: &[&'a str]) -> &'a str {
    xs[t.pick(xs.len())]
}

struct Out {
    written: String,
    expected: String,
}
impl Out {
    fn both(&mut self, s: &str) {
        self.written.push_str(s);
        self.expected.push_str(s);
    }
    fn only_written(&mut self, s: &str) {
        self.written.push_str(s);
    }
}

fn foreign_attrs(t: &mut Tape, pool: &[&str], o: &mut Out, tags: &mut Vec<String>, max: usize) {
    let n = t.pick(max + 1);
    for _ in 0..n {
        let a = pick(t, pool);
        o.both(a);
        o.both("\n");
        tags.push("foreign-attribute".into());
    }
}

fn params(t: &mut Tape, o: &mut Out, handler: bool, tags: &mut Vec<String>) {
    // receiver
    if t.chance(10) {
        if handler {
            o.only_written("#[allow(unused)] ");
        } else {
            o.both("#[allow(unused)] ");
            tags.push("helper-param-attribute".into());
        }
    }
    o.both("&self");
    let n = t.pick(4);
    for i in 0..n {
        o.both(", ");
        if t.chance(35) {
            let a = pick(t, PARAM_ATTRS);
            if handler {
                o.only_written(a);
                o.only_written(" ");
                tags.push("handler-param-attribute".into());
            } else {
                o.both(a);
                o.both(" ");
                tags.push("helper-param-attribute".into());
            }
        }
        o.both(&format!("p{i}: {}", pick(t, TYPES)));
    }
}

/// ctx parameter + arguments of a handler
fn handler_params(t: &mut Tape, o: &mut Out, ctx: &str, tags: &mut Vec<String>) {
    if t.chance(8) {
        o.only_written("#[allow(unused)] ");
    }
    o.both("&self, ");
    if t.chance(8) {
        o.only_written("#[allow(unused)] ");
        tags.push("handler-param-attribute".into());
    }
    o.both(&format!("ctx: {ctx}"));
    let n = t.pick(4);
    for i in 0..n {
        o.both(", ");
        if t.chance(35) {
            let a = pick(t, PARAM_ATTRS);
            o.only_written(a);
            o.only_written(" ");
            tags.push("handler-param-attribute".into());
        }
        o.both(&format!("a{i}: {}", pick(t, &TYPES[..5])));
    }
}

pub fn gen_contract_surface(tape: Vec<u32>) -> SurfaceCase {
    let mut t = Tape::new(tape);
    let t = &mut t;
    let mut tags = vec![];
    let mut o = Out { written: String::new(), expected: String::new() };
    // item attributes: foreign and framework ones interleaved
    let replies = t.chance(30);
    let mut sv_attrs: Vec<String> = vec![];
    if t.chance(50) {
        sv_attrs.push("#[sv::error(ContractError)]".into());
    }
    if t.chance(30) {
        sv_attrs.push("#[sv::custom(msg = MyMsg, query = MyQuery)]".into());
    }
    if t.chance(40) {
        sv_attrs.push("#[sv::messages(iface as Iface)]".into());
    }
    if t.chance(30) {
        sv_attrs.push("#[sv::messages(other::iface2 as Iface2: custom(msg, query))]".into());
    }
    if t.chance(30) {
        sv_attrs.push("#[sv::msg_attr(exec, derive(PartialOrd))]".into());
    }
    if replies {
        sv_attrs.push("#[sv::features(replies)]".into());
    }
    for a in &sv_attrs {
        foreign_attrs(t, FOREIGN_ITEM_ATTRS, &mut o, &mut tags, 1);
        o.only_written(a);
        o.only_written("\n");
    }
    foreign_attrs(t, FOREIGN_ITEM_ATTRS, &mut o, &mut tags, 2);
    let generic = t.chance(40);
    if generic {
        o.both("impl<T, U> Ctr<T, U> where T: CustomMsg + 'static, U: Clone + std::fmt::Debug {\n");
        tags.push("generic".into());
    } else {
        o.both("impl Ctr {\n");
    }
    // inner attributes belong to the item as much as outer ones
    if t.chance(25) {
        o.both(["#![allow(non_snake_case)]\n", "#![allow(clippy::too_many_arguments)]\n#![doc = \"inner\"]\n", "//! inner docs\n"][t.pick(3)]);
        tags.push("inner-attribute".into());
    }
    // members
    let mut members: Vec<&str> = vec!["new", "instantiate"];
    for _ in 0..t.pick(4) {
        members.push(["exec", "query", "sudo"][t.pick(3)]);
    }
    if t.chance(40) {
        members.push("migrate");
    }
    if replies && t.chance(60) {
        members.push("reply");
    }
    for _ in 0..t.pick(3) {
        members.push("helper");
    }
    for _ in 0..t.pick(2) {
        members.push("const");
    }
    for i in (1..members.len()).rev() {
        let j = t.pick(i + 1);
        members.swap(i, j);
    }
    let mut n = 0;
    for m in members {
        n += 1;
        match m {
            "new" => {
                foreign_attrs(t, FOREIGN_FN_ATTRS, &mut o, &mut tags, 1);
                o.both("pub const fn new() -> Self { Self { } }\n");
            }
            "const" => {
                foreign_attrs(t, &FOREIGN_FN_ATTRS[2..6], &mut o, &mut tags, 1);
                o.both(&format!("{}const K{n}: u32 = {n};\n", pick(t, VIS)));
                tags.push("non-fn-item".into());
            }
            "helper" => {
                foreign_attrs(t, FOREIGN_FN_ATTRS, &mut o, &mut tags, 2);
                o.both(&format!("{}fn helper_{n}(", pick(t, VIS)));
                params(t, &mut o, false, &mut tags);
                o.both(&format!(") -> u32 {}\n", BODIES[t.pick(3)].replace("Ok(Response::new())", "3")));
                tags.push("helper-method".into());
            }
            kind => {
                foreign_attrs(t, FOREIGN_FN_ATTRS, &mut o, &mut tags, 1);
                let ctx = match kind {
                    "instantiate" => "InstantiateCtx",
                    "exec" => "ExecCtx",
                    "query" => "QueryCtx",
                    "sudo" => "SudoCtx",
                    "migrate" => "MigrateCtx",
                    _ => "ReplyCtx",
                };
                let msg_attr = match kind {
                    "query" if t.chance(30) => "#[sv::msg(query, resp = QueryResp)]\n".to_string(),
                    "reply" => "#[sv::msg(reply, handlers = [on_done], reply_on = success)]\n".to_string(),
                    k => format!("#[sv::msg({k})]\n"),
                };
                // framework attributes in either order, foreign ones in between
                let fwd = matches!(kind, "exec" | "query" | "sudo") && t.chance(35);
                let fwd_first = fwd && t.chance(50);
                if fwd_first {
                    o.only_written("#[sv::attr(serde(rename = \"renamed\"))]\n");
                    tags.push("sv-attr-before-sv-msg".into());
                    foreign_attrs(t, FOREIGN_FN_ATTRS, &mut o, &mut tags, 1);
                }
                o.only_written(&msg_attr);
                if fwd && !fwd_first {
                    o.only_written("#[sv::attr(serde(rename = \"renamed\"))]\n");
                }
                foreign_attrs(t, FOREIGN_FN_ATTRS, &mut o, &mut tags, 1);
                o.both(&format!("{}fn {kind}_{n}(", pick(t, VIS)));
                if kind == "reply" {
                    o.both("&self, ctx: ReplyCtx, ");
                    o.only_written("#[sv::data(opt)] ");
                    o.both("data: Option<u32>, ");
                    o.only_written("#[sv::payload(raw)] ");
                    o.both("payload: Binary");
                    tags.push("handler-param-attribute".into());
                } else {
                    handler_params(t, &mut o, ctx, &mut tags);
                }
                let ret = if kind == "query" { "Result<QueryResp, ContractError>" } else { "Result<Response, ContractError>" };
                o.both(&format!(") -> {ret} {}\n", pick(t, BODIES)));
                if o.written.contains("fn inner") {
                    tags.push("nested-item".into());
                }
                if o.written.contains("#![allow(unused_variables") {
                    tags.push("inner-attribute".into());
                }
            }
        }
    }
    o.both("}\n");
    tags.sort();
    tags.dedup();
    SurfaceCase { which: "contract".into(), attr: String::new(), written: o.written, expected: format!("#[allow(clippy::new_without_default)]\n{}", o.expected), tags }
}

pub fn gen_interface_surface(tape: Vec<u32>) -> SurfaceCase {
    let mut t = Tape::new(tape);
    let t = &mut t;
    let mut tags = vec![];
    let mut o = Out { written: String::new(), expected: String::new() };
    foreign_attrs(t, FOREIGN_ITEM_ATTRS, &mut o, &mut tags, 2);
    if t.chance(40) {
        o.only_written("#[sv::custom(msg = MyMsg, query = MyQuery)]\n");
    }
    if t.chance(30) {
        o.only_written("#[sv::msg_attr(query, derive(PartialOrd))]\n");
    }
    foreign_attrs(t, FOREIGN_ITEM_ATTRS, &mut o, &mut tags, 1);
    o.both(&format!("{}trait Iface {{\n", pick(t, &VIS[..3])));
    if t.chance(25) {
        o.both(["#![allow(non_snake_case)]\n", "#![allow(clippy::too_many_arguments)]\n#![doc = \"inner\"]\n", "//! inner docs\n"][t.pick(3)]);
        tags.push("inner-attribute".into());
    }
    let mut members: Vec<&str> = vec!["error"];
    for _ in 0..t.pick(3) {
        members.push("assoc");
    }
    for _ in 1..(2 + t.pick(4)) {
        members.push(["exec", "query", "sudo"][t.pick(3)]);
    }
    for _ in 0..t.pick(3) {
        members.push("provided");
    }
    if t.chance(30) {
        members.push("const");
    }
    for i in (1..members.len()).rev() {
        let j = t.pick(i + 1);
        members.swap(i, j);
    }
    let mut n = 0;
    for m in members {
        n += 1;
        match m {
            "error" => o.both("type Error: From<StdError>;\n"),
            "assoc" => {
                foreign_attrs(t, &FOREIGN_FN_ATTRS[4..6], &mut o, &mut tags, 1);
                o.both(&format!("type Assoc{n}: CustomMsg + 'static;\n"));
            }
            "const" => {
                o.both(&format!("const LIMIT{n}: u32 = 7;\n"));
                tags.push("non-fn-item".into());
            }
            "provided" => {
                foreign_attrs(t, FOREIGN_FN_ATTRS, &mut o, &mut tags, 2);
                o.both(&format!("fn provided_{n}("));
                params(t, &mut o, false, &mut tags);
                o.both(&format!(") -> u32 {}\n", BODIES[t.pick(3)].replace("Ok(Response::new())", "3")));
                tags.push("helper-method".into());
            }
            kind => {
                foreign_attrs(t, FOREIGN_FN_ATTRS, &mut o, &mut tags, 1);
                let ctx = match kind {
                    "exec" => "ExecCtx",
                    "query" => "QueryCtx",
                    _ => "SudoCtx",
                };
                let fwd = t.chance(35);
                let fwd_first = fwd && t.chance(50);
                if fwd_first {
                    o.only_written("#[sv::attr(serde(rename = \"renamed\"))]\n");
                    tags.push("sv-attr-before-sv-msg".into());
                    foreign_attrs(t, FOREIGN_FN_ATTRS, &mut o, &mut tags, 1);
                }
                o.only_written(&format!("#[sv::msg({kind})]\n"));
                if fwd && !fwd_first {
                    o.only_written("#[sv::attr(serde(rename = \"renamed\"))]\n");
                }
                foreign_attrs(t, FOREIGN_FN_ATTRS, &mut o, &mut tags, 1);
                o.both(&format!("fn {kind}_{n}("));
                handler_params(t, &mut o, ctx, &mut tags);
                let ret = if kind == "query" { "Result<QueryResp, Self::Error>" } else { "Result<Response, Self::Error>" };
                o.both(&format!(") -> {ret};\n"));
            }
        }
    }
    o.both("}\n");
    tags.sort();
    tags.dedup();
    SurfaceCase { which: "interface".into(), attr: String::new(), written: o.written, expected: o.expected, tags }
}

/// entry_points: the input (a contract impl still carrying `#[contract]` and its sv
/// attributes) must come back unchanged.
pub fn gen_entry_points_surface(tape: Vec<u32>) -> SurfaceCase {
    let c = gen_contract_surface(tape);
    let generic = c.written.contains("impl<T, U>");
    let written = format!("#[contract]\n{}", c.written);
    SurfaceCase {
        which: "entry_points".into(),
        attr: if generic { "generics<Empty, String>".into() } else { String::new() },
        expected: written.clone(),
        written,
        tags: c.tags,
    }
}

// ---- real sources ------------------------------------------------------------------------

fn is_sv_attr(a: &syn::Attribute) -> bool {
    let segs = &a.path().segments;
    segs.len() == 2 && segs[0].ident == "sv"
}

fn macro_kind(a: &syn::Attribute) -> Option<&'static str> {
    let last = a.path().segments.last()?.ident.to_string();
    let n = a.path().segments.len();
    if n > 2 {
        return None;
    }
    if n == 2 && a.path().segments[0].ident != "sylvia" {
        return None;
    }
    match last.as_str() {
        "contract" => Some("contract"),
        "interface" => Some("interface"),
        "entry_points" => Some("entry_points"),
        _ => None,
    }
}

fn attr_args(a: &syn::Attribute) -> String {
    match &a.meta {
        syn::Meta::List(l) => l.tokens.to_string(),
        _ => String::new(),
    }
}

/// Independent re-implementation of what the macros must leave out.
fn strip_fn_inputs(inputs: &mut syn::punctuated::Punctuated<syn::FnArg, syn::Token![,]>) {
    for a in inputs.iter_mut() {
        match a {
            syn::FnArg::Receiver(r) => r.attrs.clear(),
            syn::FnArg::Typed(t) => t.attrs.clear(),
        }
    }
}

fn expected_impl(mut i: syn::ItemImpl) -> syn::ItemImpl {
    i.attrs.retain(|a| !is_sv_attr(a));
    for it in i.items.iter_mut() {
        if let syn::ImplItem::Fn(f) = it {
            let handler = f.attrs.iter().any(|a| is_sv_attr(a) && a.path().segments[1].ident == "msg");
            f.attrs.retain(|a| !is_sv_attr(a));
            if handler {
                strip_fn_inputs(&mut f.sig.inputs);
            }
        }
    }
    i
}

fn expected_trait(mut i: syn::ItemTrait) -> syn::ItemTrait {
    i.attrs.retain(|a| !is_sv_attr(a));
    for it in i.items.iter_mut() {
        if let syn::TraitItem::Fn(f) = it {
            let handler = f.attrs.iter().any(|a| is_sv_attr(a) && a.path().segments[1].ident == "msg");
            f.attrs.retain(|a| !is_sv_attr(a));
            if handler {
                strip_fn_inputs(&mut f.sig.inputs);
            }
        }
    }
    i
}

fn ts<T: quote::ToTokens>(t: &T) -> String {
    t.to_token_stream().to_string()
}

fn visit_items(items: &[syn::Item], file: &str, out: &mut Vec<SurfaceCase>) {
    for it in items {
        match it {
            syn::Item::Mod(m) => {
                if let Some((_, inner)) = &m.content {
                    visit_items(inner, file, out);
                }
            }
            syn::Item::Impl(im) => {
                let macros: Vec<(usize, &'static str)> = im.attrs.iter().enumerate().filter_map(|(n, a)| macro_kind(a).map(|k| (n, k))).collect();
                for (pos, kind) in &macros {
                    let mut input = im.clone();
                    // the macro sees the item without its own attribute and without the
                    // macro attributes expanded before it
                    let drop: Vec<usize> = macros.iter().filter(|(p, _)| p <= pos).map(|(p, _)| *p).collect();
                    let mut n = 0;
                    input.attrs.retain(|_| {
                        let keep = !drop.contains(&n);
                        n += 1;
                        keep
                    });
                    let attr = attr_args(&im.attrs[*pos]);
                    let expected = match *kind {
                        "contract" => format!("#[allow(clippy::new_without_default)] {}", ts(&expected_impl(input.clone()))),
                        "entry_points" => ts(&input),
                        _ => continue,
                    };
                    out.push(SurfaceCase { which: kind.to_string(), attr, written: ts(&input), expected, tags: vec![format!("real:{file}")] });
                }
            }
            syn::Item::Trait(tr) => {
                if let Some(pos) = tr.attrs.iter().position(|a| macro_kind(a) == Some("interface")) {
                    let mut input = tr.clone();
                    input.attrs.remove(pos);
                    out.push(SurfaceCase {
                        which: "interface".into(),
                        attr: attr_args(&tr.attrs[pos]),
                        written: ts(&input),
                        expected: ts(&expected_trait(input.clone())),
                        tags: vec![format!("real:{file}")],
                    });
                }
            }
            _ => {}
        }
    }
}

fn walk(dir: &std::path::Path, files: &mut Vec<std::path::PathBuf>) {
    let Ok(rd) = std::fs::read_dir(dir) else { return };
    let mut entries: Vec<_> = rd.flatten().map(|e| e.path()).collect();
    entries.sort();
    for p in entries {
        if p.is_dir() {
            let name = p.file_name().map(|n| n.to_string_lossy().to_string()).unwrap_or_default();
            if name == "target" || name == "ui" || name == ".git" {
                continue;
            }
            walk(&p, files);
        } else if p.extension().map(|e| e == "rs").unwrap_or(false) {
            files.push(p);
        }
    }
}

/// Every annotated item in the real sources under /repo/sylvia/tests and /repo/examples.
pub fn real_sources() -> Vec<SurfaceCase> {
    let mut files = vec![];
    walk(std::path::Path::new("/repo/sylvia/tests"), &mut files);
    walk(std::path::Path::new("/repo/examples"), &mut files);
    let mut out = vec![];
    for f in files {
        let Ok(text) = std::fs::read_to_string(&f) else { continue };
        let Ok(file) = syn::parse_file(&text) else { continue };
        visit_items(&file.items, &f.display().to_string(), &mut out);
    }
    out
}
