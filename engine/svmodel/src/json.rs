//! Model-side JSON: for every concrete `Ty` a proptest strategy producing the JSON value a
//! CosmWasm client would put on the wire for a value of that type.  These values are the
//! "sent arguments" of every behavioural oracle; typed Rust values are obtained from them
//! through the argument type's own serde impl (never through sylvia-generated types).

use crate::Ty;
use base64::Engine;
use proptest::prelude::*;
use serde_json::{json, Value};

pub fn string_strategy() -> BoxedStrategy<String> {
    prop_oneof![
        3 => "[a-z0-9_]{0,12}",
        2 => Just(String::new()),
        2 => "[ -~]{0,24}",
        2 => "\\PC{0,12}",
        1 => prop::collection::vec(prop_oneof![
                Just('"'), Just('\\'), Just('\n'), Just('\t'), Just('\u{0}'), Just('\u{1f}'),
                Just('/'), Just('\u{7f}'), Just('é'), Just('\u{1F600}'), Just('{'), Just('}'),
                Just('a')], 0..10)
            .prop_map(|v| v.into_iter().collect::<String>()),
    ]
    .boxed()
}

fn u64_edge() -> BoxedStrategy<u64> {
    prop_oneof![
        4 => any::<u64>(),
        2 => 0u64..1000,
        1 => Just(0u64),
        1 => Just(u64::MAX),
        1 => Just(1u64 << 53),
        1 => Just((1u64 << 53) + 1),
    ]
    .boxed()
}

fn u128_edge() -> BoxedStrategy<u128> {
    prop_oneof![
        4 => any::<u128>(),
        2 => (0u128..100000),
        1 => Just(0u128),
        1 => Just(u128::MAX),
        1 => Just(u64::MAX as u128 + 1),
    ]
    .boxed()
}

fn bytes_strategy() -> BoxedStrategy<Vec<u8>> {
    prop_oneof![
        2 => Just(vec![]),
        4 => prop::collection::vec(any::<u8>(), 0..24),
        1 => Just(vec![0xff, 0xfe, 0x00]),
        1 => Just(b"{\"a\":1}".to_vec()),
    ]
    .boxed()
}

pub fn b64(bytes: &[u8]) -> String {
    base64::engine::general_purpose::STANDARD.encode(bytes)
}

pub fn rec_strategy() -> BoxedStrategy<Value> {
    (
        any::<u32>(),
        string_strategy(),
        prop::collection::vec(string_strategy(), 0..3),
        u128_edge(),
        prop::option::of(any::<bool>()),
    )
        .prop_map(|(id, label, tags, amount, opt)| {
            json!({"id": id, "label": label, "tags": tags, "amount": amount.to_string(), "opt": opt})
        })
        .boxed()
}

pub fn choice_strategy() -> BoxedStrategy<Value> {
    prop_oneof![
        Just(json!("unit")),
        (any::<u32>(), string_strategy()).prop_map(|(a, b)| json!({"pair": {"a": a, "b": b}})),
        string_strategy().prop_map(|s| json!({"wrap": s})),
    ]
    .boxed()
}

pub fn mymsg_strategy() -> BoxedStrategy<Value> {
    prop_oneof![
        any::<u32>().prop_map(|n| json!({"ping": {"n": n}})),
        string_strategy().prop_map(|s| json!({"note": {"text": s}})),
    ]
    .boxed()
}

pub fn coin_strategy() -> BoxedStrategy<Value> {
    ("[a-z]{3,8}", u128_edge())
        .prop_map(|(d, a)| json!({"denom": d, "amount": a.to_string()}))
        .boxed()
}

/// JSON strategy for a concrete type (no `Param` / `Assoc`).
pub fn value_strategy(ty: &Ty) -> BoxedStrategy<Value> {
    match ty {
        Ty::U8 => prop_oneof![any::<u8>(), Just(0u8), Just(255u8)].prop_map(|v| json!(v)).boxed(),
        Ty::U32 => prop_oneof![3 => any::<u32>(), 1 => Just(0u32), 1 => Just(u32::MAX), 2 => 0u32..100]
            .prop_map(|v| json!(v))
            .boxed(),
        Ty::U64 => u64_edge().prop_map(|v| json!(v)).boxed(),
        Ty::I32 => prop_oneof![3 => any::<i32>(), 1 => Just(i32::MIN), 1 => Just(-1), 1 => Just(i32::MAX)]
            .prop_map(|v| json!(v))
            .boxed(),
        Ty::Bool => any::<bool>().prop_map(|v| json!(v)).boxed(),
        Ty::Str => string_strategy().prop_map(|v| json!(v)).boxed(),
        Ty::Uint128 => u128_edge().prop_map(|v| json!(v.to_string())).boxed(),
        Ty::Binary => bytes_strategy().prop_map(|v| json!(b64(&v))).boxed(),
        Ty::Addr => prop_oneof![3 => "[a-z0-9]{1,20}", 1 => string_strategy()]
            .prop_map(|v| json!(v))
            .boxed(),
        Ty::Coin => coin_strategy(),
        Ty::Rec => rec_strategy(),
        Ty::Choice => choice_strategy(),
        Ty::MyMsg => mymsg_strategy(),
        Ty::Opt(t) => prop_oneof![1 => Just(Value::Null), 3 => value_strategy(t)].boxed(),
        Ty::Vec(t) => prop::collection::vec(value_strategy(t), 0..4).prop_map(Value::Array).boxed(),
        Ty::Tup2(a, b) => (value_strategy(a), value_strategy(b))
            .prop_map(|(a, b)| Value::Array(vec![a, b]))
            .boxed(),
        Ty::Map(t) => prop::collection::btree_map("[a-z_]{0,6}", value_strategy(t), 0..3)
            .prop_map(|m| Value::Object(m.into_iter().collect()))
            .boxed(),
        Ty::Boxed(t) => value_strategy(t),
        Ty::Arr2(t) => (value_strategy(t), value_strategy(t)).prop_map(|(a, b)| Value::Array(vec![a, b])).boxed(),
        Ty::Param(_) | Ty::Assoc(_) => panic!("value_strategy on unresolved type"),
    }
}

/// A JSON value that is *not* acceptable for the type (wrong JSON type).
pub fn wrong_value(ty: &Ty) -> Value {
    match ty {
        Ty::U8 | Ty::U32 | Ty::U64 | Ty::I32 => json!("not-a-number"),
        Ty::Bool => json!(7),
        Ty::Str | Ty::Addr | Ty::Binary | Ty::Uint128 => json!({"x": 1}),
        Ty::Coin | Ty::Rec | Ty::MyMsg => json!(12),
        Ty::Choice => json!(["nope"]),
        Ty::Opt(t) | Ty::Boxed(t) => wrong_value(t),
        Ty::Vec(_) | Ty::Tup2(..) | Ty::Arr2(_) => json!("not-a-list"),
        Ty::Map(_) => json!(3),
        Ty::Param(_) | Ty::Assoc(_) => json!(null),
    }
}

/// Is `Option<..>` at the top (a missing key is accepted by serde for Option fields).
pub fn is_option(ty: &Ty) -> bool {
    matches!(ty, Ty::Opt(_))
}
