//! Program model shared by the generator/driver (`svgen`) and the runtime support
//! library linked into generated corpus crates (`svrt`).
//!
//! Nothing in here depends on sylvia.  The model is the *specification side* of every
//! oracle: wire names, argument lists, reply tables, used generics are all read off these
//! structures, never off an expansion.

use serde::{Deserialize, Serialize};

pub mod json;
pub mod tape;

#[derive(Clone, Copy, Debug, PartialEq, Eq, Hash, PartialOrd, Ord, Serialize, Deserialize)]
pub enum Kind {
    Instantiate,
    Exec,
    Query,
    Sudo,
    Migrate,
    Reply,
}

impl Kind {
    pub const ALL: [Kind; 6] = [
        Kind::Instantiate,
        Kind::Exec,
        Kind::Query,
        Kind::Sudo,
        Kind::Migrate,
        Kind::Reply,
    ];
    pub const ENUMS: [Kind; 3] = [Kind::Exec, Kind::Query, Kind::Sudo];
    /// name used inside `#[sv::msg(..)]`
    pub fn attr(self) -> &'static str {
        match self {
            Kind::Instantiate => "instantiate",
            Kind::Exec => "exec",
            Kind::Query => "query",
            Kind::Sudo => "sudo",
            Kind::Migrate => "migrate",
            Kind::Reply => "reply",
        }
    }
    /// name of the cosmwasm entry point
    pub fn ep(self) -> &'static str {
        match self {
            Kind::Instantiate => "instantiate",
            Kind::Exec => "execute",
            Kind::Query => "query",
            Kind::Sudo => "sudo",
            Kind::Migrate => "migrate",
            Kind::Reply => "reply",
        }
    }
    pub fn ctx(self) -> &'static str {
        match self {
            Kind::Instantiate => "InstantiateCtx",
            Kind::Exec => "ExecCtx",
            Kind::Query => "QueryCtx",
            Kind::Sudo => "SudoCtx",
            Kind::Migrate => "MigrateCtx",
            Kind::Reply => "ReplyCtx",
        }
    }
    pub fn msg_ty(self) -> &'static str {
        match self {
            Kind::Instantiate => "InstantiateMsg",
            Kind::Exec => "ExecMsg",
            Kind::Query => "QueryMsg",
            Kind::Sudo => "SudoMsg",
            Kind::Migrate => "MigrateMsg",
            Kind::Reply => "ReplyMsg",
        }
    }
    /// associated type name in ContractApi / InterfaceMessagesApi
    pub fn accessor(self) -> &'static str {
        match self {
            Kind::Instantiate => "Instantiate",
            Kind::Exec => "Exec",
            Kind::Query => "Query",
            Kind::Sudo => "Sudo",
            Kind::Migrate => "Migrate",
            Kind::Reply => "Reply",
        }
    }
    pub fn is_enum(self) -> bool {
        matches!(self, Kind::Exec | Kind::Query | Kind::Sudo)
    }
    pub fn has_info(self) -> bool {
        matches!(self, Kind::Exec | Kind::Instantiate)
    }
    pub fn idx(self) -> usize {
        Kind::ALL.iter().position(|k| *k == self).unwrap()
    }
}

/// Argument / response types.  `Param(i)` is the i-th generic parameter of the contract,
/// `Assoc(i)` the i-th (non-Error, non-ExecC/QueryC) associated type of the interface.
#[derive(Clone, Debug, PartialEq, Eq, Hash, Serialize, Deserialize)]
pub enum Ty {
    U8,
    U32,
    U64,
    I32,
    Bool,
    Str,
    Uint128,
    Binary,
    Addr,
    Coin,
    Rec,
    Choice,
    MyMsg,
    Opt(Box<Ty>),
    Vec(Box<Ty>),
    Tup2(Box<Ty>, Box<Ty>),
    Map(Box<Ty>),
    Boxed(Box<Ty>),
    /// `[T; 2]` (not a path type: its element type is reached only by walking the whole type)
    Arr2(Box<Ty>),
    Param(usize),
    Assoc(usize),
}

impl Ty {
    /// Rust spelling.  `params[i]` / `assocs[i]` are the spellings of the generic
    /// parameters / associated types in the current context (`T0`, `Self::A0`, or a
    /// concrete type when rendering instantiated code).
    pub fn rust(&self, params: &[String], assocs: &[String]) -> String {
        match self {
            Ty::U8 => "u8".into(),
            Ty::U32 => "u32".into(),
            Ty::U64 => "u64".into(),
            Ty::I32 => "i32".into(),
            Ty::Bool => "bool".into(),
            Ty::Str => "String".into(),
            Ty::Uint128 => "Uint128".into(),
            Ty::Binary => "Binary".into(),
            Ty::Addr => "Addr".into(),
            Ty::Coin => "Coin".into(),
            Ty::Rec => "Rec".into(),
            Ty::Choice => "Choice".into(),
            Ty::MyMsg => "MyMsg".into(),
            Ty::Opt(t) => format!("Option<{}>", t.rust(params, assocs)),
            Ty::Vec(t) => format!("Vec<{}>", t.rust(params, assocs)),
            Ty::Tup2(a, b) => format!("({}, {})", a.rust(params, assocs), b.rust(params, assocs)),
            // written with module-qualified paths (a type parameter inside the generic arguments
            // of a multi-segment path is still a use of that parameter)
            Ty::Map(t) => format!("std::collections::BTreeMap<String, {}>", t.rust(params, assocs)),
            Ty::Boxed(t) => format!("std::boxed::Box<{}>", t.rust(params, assocs)),
            Ty::Arr2(t) => format!("[{}; 2]", t.rust(params, assocs)),
            Ty::Param(i) => params[*i].clone(),
            Ty::Assoc(i) => assocs[*i].clone(),
        }
    }

    /// Substitute concrete types for parameters / associated types.
    pub fn resolve(&self, params: &[Ty], assocs: &[Ty]) -> Ty {
        match self {
            Ty::Opt(t) => Ty::Opt(Box::new(t.resolve(params, assocs))),
            Ty::Vec(t) => Ty::Vec(Box::new(t.resolve(params, assocs))),
            Ty::Tup2(a, b) => Ty::Tup2(
                Box::new(a.resolve(params, assocs)),
                Box::new(b.resolve(params, assocs)),
            ),
            Ty::Map(t) => Ty::Map(Box::new(t.resolve(params, assocs))),
            Ty::Boxed(t) => Ty::Boxed(Box::new(t.resolve(params, assocs))),
            Ty::Arr2(t) => Ty::Arr2(Box::new(t.resolve(params, assocs))),
            Ty::Param(i) => params[*i].clone(),
            Ty::Assoc(i) => assocs[*i].clone(),
            t => t.clone(),
        }
    }

    pub fn params_used(&self, out: &mut Vec<usize>) {
        match self {
            Ty::Opt(t) | Ty::Vec(t) | Ty::Map(t) | Ty::Boxed(t) | Ty::Arr2(t) => t.params_used(out),
            Ty::Tup2(a, b) => {
                a.params_used(out);
                b.params_used(out)
            }
            Ty::Param(i) | Ty::Assoc(i) => {
                if !out.contains(i) {
                    out.push(*i)
                }
            }
            _ => {}
        }
    }

    pub fn depth(&self) -> usize {
        match self {
            Ty::Opt(t) | Ty::Vec(t) | Ty::Map(t) | Ty::Boxed(t) | Ty::Arr2(t) => 1 + t.depth(),
            Ty::Tup2(a, b) => 1 + a.depth().max(b.depth()),
            _ => 0,
        }
    }
}

#[derive(Clone, Debug, PartialEq, Eq, Hash, Serialize, Deserialize)]
pub enum ArgAttr {
    /// `#[serde(default)]`
    SerdeDefault,
    /// `#[doc = "vp-N"]` inert marker
    Marker(u32),
}

#[derive(Clone, Debug, PartialEq, Eq, Hash, Serialize, Deserialize)]
pub struct Arg {
    /// Rust identifier as written (may be raw: `r#type`)
    pub name: String,
    pub ty: Ty,
    pub attrs: Vec<ArgAttr>,
}

impl Arg {
    /// JSON key: the identifier without a raw prefix.
    pub fn key(&self) -> &str {
        self.name.strip_prefix("r#").unwrap_or(&self.name)
    }
}

#[derive(Clone, Copy, Debug, PartialEq, Eq, Hash, Serialize, Deserialize)]
pub enum ErrTy {
    /// `StdError`
    Std,
    /// the contract's custom error `CErr` (or `Self::Error` inside an interface)
    Custom,
}

#[derive(Clone, Copy, Debug, PartialEq, Eq, Hash, Serialize, Deserialize)]
pub enum RespTy {
    EchoA,
    EchoB,
    EchoC,
    /// response is a generic parameter / associated type
    Param(usize),
    /// plain leaf responses: `Binary` (already "encoded"-looking bytes) and `String`
    Bin,
    Text,
}

#[derive(Clone, Copy, Debug, PartialEq, Eq, Hash, Serialize, Deserialize)]
pub enum ReplyOn {
    Success,
    Error,
    Always,
}

impl ReplyOn {
    pub fn attr(self) -> &'static str {
        match self {
            ReplyOn::Success => "success",
            ReplyOn::Error => "error",
            ReplyOn::Always => "always",
        }
    }
    pub fn covers_ok(self) -> bool {
        !matches!(self, ReplyOn::Error)
    }
    pub fn covers_err(self) -> bool {
        !matches!(self, ReplyOn::Success)
    }
}

#[derive(Clone, Copy, Debug, PartialEq, Eq, Hash, Serialize, Deserialize)]
pub enum DataMode {
    /// no `#[sv::data]` parameter
    Absent,
    Raw,
    RawOpt,
    Typed,
    Opt,
    Inst,
    InstOpt,
}

impl DataMode {
    pub const ALL: [DataMode; 7] = [
        DataMode::Absent,
        DataMode::Raw,
        DataMode::RawOpt,
        DataMode::Typed,
        DataMode::Opt,
        DataMode::Inst,
        DataMode::InstOpt,
    ];
    pub fn attr(self) -> Option<&'static str> {
        match self {
            DataMode::Absent => None,
            DataMode::Raw => Some("#[sv::data(raw)]"),
            DataMode::RawOpt => Some("#[sv::data(raw, opt)]"),
            DataMode::Typed => Some("#[sv::data]"),
            DataMode::Opt => Some("#[sv::data(opt)]"),
            DataMode::Inst => Some("#[sv::data(instantiate)]"),
            DataMode::InstOpt => Some("#[sv::data(instantiate, opt)]"),
        }
    }
}

#[derive(Clone, Debug, PartialEq, Eq, Hash, Serialize, Deserialize)]
pub enum Payload {
    /// `#[sv::payload(raw)] payload: Binary`
    Raw,
    Typed(Vec<Arg>),
}

#[derive(Clone, Debug, PartialEq, Eq, Hash, Serialize, Deserialize)]
pub struct ReplySpec {
    /// explicit `handlers=[..]`; empty = the method name is the handler name
    pub handlers: Vec<String>,
    pub on: ReplyOn,
    /// only meaningful for `on == Success`
    pub data: DataMode,
    /// type of the typed data payload (`T` in `data: T` / `Option<T>`)
    pub data_ty: Ty,
    pub payload: Payload,
}

#[derive(Clone, Debug, PartialEq, Eq, Hash, Serialize, Deserialize)]
pub enum Role {
    Handler(Kind),
    /// method without `#[sv::msg]`
    Helper,
}

#[derive(Clone, Debug, PartialEq, Eq, Hash, Serialize, Deserialize)]
pub struct Method {
    pub name: String,
    pub role: Role,
    pub args: Vec<Arg>,
    pub err: ErrTy,
    /// query only
    pub resp: RespTy,
    /// query only: `#[sv::msg(query, resp=EchoX)]` + aliased result type
    pub resp_explicit: bool,
    /// `#[sv::attr(doc = "vp-N")]` markers / `serde(alias = "..")`
    pub variant_attrs: Vec<VariantAttr>,
    pub reply: Option<ReplySpec>,
}

#[derive(Clone, Debug, PartialEq, Eq, Hash, Serialize, Deserialize)]
pub enum VariantAttr {
    Marker(u32),
    SerdeAlias(String),
}

impl Method {
    pub fn kind(&self) -> Option<Kind> {
        match self.role {
            Role::Handler(k) => Some(k),
            Role::Helper => None,
        }
    }
}

#[derive(Clone, Debug, PartialEq, Eq, Hash, Serialize, Deserialize)]
pub enum MsgAttr {
    Marker(u32),
    /// `derive(PartialOrd)`
    DerivePartialOrd,
    /// a forwarded derive list holding a uniquely named (non-existent) derive whose name ends
    /// like one the framework derives itself, e.g. `derive(Eq, vp::Vp17Serialize)`
    /// (token-level programs only)
    DeriveMarker(u32),
}

/// How an interface relates to the chain-custom types.
#[derive(Clone, Copy, Debug, PartialEq, Eq, Hash, Serialize, Deserialize)]
pub enum CustomStyle {
    /// no mention of custom types: `Response`, `ExecCtx` (i.e. `Empty`)
    Plain,
    /// `type ExecC: CustomMsg; type QueryC: CustomQuery;` used in the signatures
    Assoc,
    /// `#[sv::custom(msg=.., query=..)]` fixed to the contract's types
    Fixed,
}

#[derive(Clone, Debug, PartialEq, Eq, Hash, Serialize, Deserialize)]
pub struct Interface {
    pub module: String,
    pub trait_name: String,
    /// render `as TraitName` in `sv::messages`
    pub explicit_as: bool,
    /// concrete types of the extra associated types `A0`, `A1`..
    pub assoc: Vec<Ty>,
    /// names of those associated types (empty = `A0`, `A1`..)
    #[serde(default)]
    pub assoc_names: Vec<String>,
    /// variant name given with `as` in `sv::messages` when it differs from the trait name
    #[serde(default)]
    pub alias: Option<String>,
    pub style: CustomStyle,
    pub methods: Vec<Method>,
    pub msg_attrs: Vec<(Kind, MsgAttr)>,
}

impl Interface {
    pub fn assoc_name(&self, k: usize) -> String {
        self.assoc_names.get(k).cloned().unwrap_or_else(|| format!("A{k}"))
    }
}

#[derive(Clone, Debug, PartialEq, Eq, Hash, Serialize, Deserialize)]
pub struct Contract {
    /// concrete instantiation of each generic parameter `T0`, `T1`, ..
    pub generics: Vec<Ty>,
    /// names of the generic parameters (empty = `T0`, `T1`, ..)
    #[serde(default)]
    pub generic_names: Vec<String>,
    /// extra where predicates relating two parameters: (i, j) renders `Ti: Rel<Tj>`
    pub rel_bounds: Vec<(usize, usize)>,
    pub error: ErrTy,
    pub custom_msg: bool,
    pub custom_query: bool,
    pub replies: bool,
    pub overrides: Vec<Kind>,
    pub msg_attrs: Vec<(Kind, MsgAttr)>,
    pub methods: Vec<Method>,
    pub entry_points: bool,
    /// `Some(i)`: contract query handlers that return `StdError` spell their error type
    /// `GenErr<Ti>` instead (a type parameter occurring only in the error position of a
    /// query's return type is *not* a parameter of the query message)
    #[serde(default)]
    pub query_err_param: Option<usize>,
    /// the impl block also declares a lifetime parameter (`impl<'a, T0> Ctr<'a, T0>`), which no
    /// message uses (token-level programs only: the compiled families do not set it)
    #[serde(default)]
    pub lifetime: bool,
    /// write `sv::attr` above `sv::msg` where the renderer would write it below and vice versa
    /// (the order of a method's attributes is a declaration order too)
    #[serde(default)]
    pub flip_attr_order: bool,
}

#[derive(Clone, Debug, PartialEq, Eq, Hash, Serialize, Deserialize)]
pub struct Program {
    pub id: String,
    pub contract: Contract,
    pub interfaces: Vec<Interface>,
}

/// A flattened view of one handler, used by the runtime.
#[derive(Clone, Debug, PartialEq, Serialize, Deserialize)]
pub struct HandlerView {
    pub id: String,
    /// 0 = contract, 1.. = interfaces[part-1]
    pub part: usize,
    pub kind: Kind,
    pub name: String,
    pub args: Vec<Arg>,
    /// argument types with generics / associated types resolved
    pub conc: Vec<Ty>,
    pub err: ErrTy,
}

impl Program {
    pub fn part_name(&self, part: usize) -> String {
        if part == 0 {
            "ctr".to_string()
        } else {
            self.interfaces[part - 1].module.clone()
        }
    }
    pub fn parts(&self) -> usize {
        1 + self.interfaces.len()
    }
    pub fn methods_of(&self, part: usize) -> &[Method] {
        if part == 0 {
            &self.contract.methods
        } else {
            &self.interfaces[part - 1].methods
        }
    }
    /// all non-reply handlers
    pub fn handlers(&self) -> Vec<HandlerView> {
        let mut out = vec![];
        for part in 0..self.parts() {
            let assoc: Vec<Ty> = if part == 0 {
                vec![]
            } else {
                self.interfaces[part - 1].assoc.clone()
            };
            for m in self.methods_of(part) {
                if let Role::Handler(kind) = m.role {
                    if kind == Kind::Reply {
                        continue;
                    }
                    out.push(HandlerView {
                        id: format!("{}::{}::{}", self.part_name(part), kind.attr(), m.name),
                        part,
                        kind,
                        name: m.name.clone(),
                        args: m.args.clone(),
                        conc: m
                            .args
                            .iter()
                            .map(|a| a.ty.resolve(&self.contract.generics, &assoc))
                            .collect(),
                        err: m.err,
                    });
                }
            }
        }
        out
    }
    pub fn has_kind(&self, part: usize, kind: Kind) -> bool {
        self.methods_of(part).iter().any(|m| m.role == Role::Handler(kind))
    }
}

/// Words never used as generated identifiers.
pub const RESERVED: &[&str] = &[
    "as", "break", "const", "continue", "crate", "else", "enum", "extern", "false", "fn", "for",
    "if", "impl", "in", "let", "loop", "match", "mod", "move", "mut", "pub", "ref", "return",
    "self", "static", "struct", "super", "trait", "true", "type", "unsafe", "use", "where",
    "while", "async", "await", "dyn", "abstract", "become", "box", "do", "final", "macro",
    "override", "priv", "typeof", "unsized", "virtual", "yield", "try", "gen", "new", "dispatch",
    "union", "default", "auto",
];

/// One row of the reply routing table (reference semantics, computed from the model).
#[derive(Clone, Debug, PartialEq, Serialize, Deserialize)]
pub struct ReplyRow {
    /// handler name (the reply id constant is derived from it)
    pub name: String,
    /// method covering a successful sub-message (declared `success` or `always`)
    pub ok: Option<String>,
    /// method covering a failed sub-message (declared `error` or `always`)
    pub err: Option<String>,
}

#[derive(Clone, Debug, PartialEq, Serialize, Deserialize)]
pub struct ReplyMethodView {
    pub id: String,
    pub name: String,
    pub spec: ReplySpec,
    /// concrete payload argument types (empty for raw)
    pub payload_conc: Vec<Ty>,
    pub data_conc: Ty,
    pub err: ErrTy,
}

impl Program {
    pub fn reply_methods(&self) -> Vec<ReplyMethodView> {
        self.contract
            .methods
            .iter()
            .filter_map(|m| {
                let spec = m.reply.clone()?;
                let payload_conc = match &spec.payload {
                    Payload::Raw => vec![],
                    Payload::Typed(a) => a.iter().map(|a| a.ty.resolve(&self.contract.generics, &[])).collect(),
                };
                Some(ReplyMethodView {
                    id: format!("ctr::reply::{}", m.name),
                    name: m.name.clone(),
                    data_conc: spec.data_ty.resolve(&self.contract.generics, &[]),
                    spec,
                    payload_conc,
                    err: m.err,
                })
            })
            .collect()
    }

    /// Handler names in first-appearance order with the methods covering each outcome.
    pub fn reply_table(&self) -> Vec<ReplyRow> {
        let mut rows: Vec<ReplyRow> = vec![];
        for m in self.reply_methods() {
            let names = if m.spec.handlers.is_empty() { vec![m.name.clone()] } else { m.spec.handlers.clone() };
            for n in names {
                let idx = match rows.iter().position(|r| r.name == n) {
                    Some(i) => i,
                    None => {
                        rows.push(ReplyRow { name: n.clone(), ok: None, err: None });
                        rows.len() - 1
                    }
                };
                if m.spec.on.covers_ok() {
                    rows[idx].ok = Some(m.name.clone());
                }
                if m.spec.on.covers_err() {
                    rows[idx].err = Some(m.name.clone());
                }
            }
        }
        rows
    }
}
