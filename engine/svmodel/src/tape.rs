//! A "choice tape": all random decisions of the program generators are read from a
//! `Vec<u32>` produced by a proptest strategy, so that proptest owns the randomness and
//! shrinking the tape (shorter, smaller numbers) yields simpler programs (0 is always the
//! simplest choice, an exhausted tape reads as 0).

use proptest::prelude::*;

#[derive(Clone, Debug)]
pub struct Tape {
    data: Vec<u32>,
    pos: usize,
}

impl Tape {
    pub fn new(data: Vec<u32>) -> Self {
        Tape { data, pos: 0 }
    }
    pub fn raw(&mut self) -> u32 {
        let v = self.data.get(self.pos).copied().unwrap_or(0);
        self.pos += 1;
        v
    }
    /// uniform in 0..n, monotone in the raw value (so shrinking the tape shrinks the pick)
    pub fn pick(&mut self, n: usize) -> usize {
        if n <= 1 {
            self.raw();
            return 0;
        }
        ((self.raw() as u64 * n as u64) >> 32) as usize
    }
    /// true with probability `percent`/100; 0 on the tape means false
    pub fn chance(&mut self, percent: u32) -> bool {
        let r = self.raw() as u64;
        // true for the top `percent` of the range
        r >= ((100 - percent.min(100)) as u64 * (1u64 << 32)) / 100 && percent > 0
    }
    /// index chosen with the given weights; index 0 is the simplest
    pub fn weighted(&mut self, weights: &[u32]) -> usize {
        let total: u64 = weights.iter().map(|w| *w as u64).sum();
        if total == 0 {
            self.raw();
            return 0;
        }
        let mut r = (self.raw() as u64 * total) >> 32;
        for (i, w) in weights.iter().enumerate() {
            if r < *w as u64 {
                return i;
            }
            r -= *w as u64;
        }
        weights.len() - 1
    }
    pub fn range(&mut self, lo: usize, hi_incl: usize) -> usize {
        lo + self.pick(hi_incl - lo + 1)
    }
    pub fn used(&self) -> usize {
        self.pos
    }
}

pub fn tape_strategy(len: usize) -> impl Strategy<Value = Vec<u32>> {
    proptest::collection::vec(any::<u32>(), len)
}
