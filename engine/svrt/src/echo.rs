//! Echo handlers: every generated handler body records who ran and with what, proves that
//! it reached the caller's storage / api / querier, and returns a response (or error)
//! derived from that record.

use crate::types::{CErr, MkCustom};
use serde::{Deserialize, Serialize};
use serde_json::{json, Value};
use std::cell::RefCell;
use sylvia::cw_std::{
    Api, BankMsg, Binary, CanonicalAddr, Coin, CosmosMsg, CustomQuery, Deps, DepsMut, Env, Event,
    MessageInfo, QuerierWrapper, ReplyOn, Response, StdError, Storage, SubMsg, Uint128, WasmMsg,
};

#[derive(Clone, Debug, PartialEq, Serialize, Deserialize)]
pub struct CallRec {
    pub id: String,
    pub kind: String,
    /// arguments by parameter name, each encoded with the argument type's own serde impl
    pub args: Value,
    pub env: Value,
    pub info: Value,
    pub sentinel: Option<String>,
    pub api_probe: String,
    pub querier_probe: String,
    /// reply handlers: gas_used / events / msg_responses seen in the context
    pub extra: Value,
    /// what the handler returned: `{"ok": <response or value json>}` / `{"err": "<text>"}`
    pub returned: Value,
}

thread_local! {
    static LOG: RefCell<Vec<CallRec>> = const { RefCell::new(Vec::new()) };
}

pub fn log_clear() {
    LOG.with(|l| l.borrow_mut().clear());
}
pub fn log_take() -> Vec<CallRec> {
    LOG.with(|l| std::mem::take(&mut *l.borrow_mut()))
}
fn log_push(r: CallRec) {
    LOG.with(|l| l.borrow_mut().push(r));
}

pub const K_SENTINEL: &[u8] = b"vp_sentinel";
pub const K_FAIL: &[u8] = b"vp_fail";
pub const K_TOUCHED: &[u8] = b"vp_touched_by";
pub const K_SPEC: &[u8] = b"vp_resp_spec";
pub const K_LOG: &[u8] = b"vp_log";
pub const PROBE_CANON: [u8; 20] = [7u8; 20];

/// Description of sub-messages / attributes / events / data an echo handler should put in
/// its response (stored by the harness under `K_SPEC`).
#[derive(Clone, Debug, PartialEq, Serialize, Deserialize)]
pub struct RespSpec {
    pub msgs: Vec<SubSpec>,
    pub attrs: Vec<(String, String)>,
    pub events: Vec<(String, Vec<(String, String)>)>,
    pub data: Option<Vec<u8>>,
}

#[derive(Clone, Debug, PartialEq, Serialize, Deserialize)]
pub struct SubSpec {
    /// "bank_send" | "bank_burn" | "wasm_exec" | "wasm_inst" | "wasm_migrate" |
    /// "wasm_update_admin" | "wasm_clear_admin" | "staking" | "distribution" | "stargate" |
    /// "ibc" | "gov" | "custom"
    pub kind: String,
    pub id: u64,
    pub gas_limit: Option<u64>,
    /// 0 never, 1 success, 2 error, 3 always
    pub reply_on: u8,
    pub payload: Vec<u8>,
    pub n: u32,
    pub text: String,
}

pub fn reply_on_of(n: u8) -> ReplyOn {
    match n % 4 {
        0 => ReplyOn::Never,
        1 => ReplyOn::Success,
        2 => ReplyOn::Error,
        _ => ReplyOn::Always,
    }
}

pub fn cosmos_msg_of<C: MkCustom>(s: &SubSpec) -> CosmosMsg<C> {
    let coins = vec![Coin { denom: "ucosm".into(), amount: Uint128::new(s.n as u128) }];
    match s.kind.as_str() {
        "bank_send" => CosmosMsg::Bank(BankMsg::Send { to_address: s.text.clone(), amount: coins }),
        "bank_burn" => CosmosMsg::Bank(BankMsg::Burn { amount: coins }),
        "wasm_exec" => CosmosMsg::Wasm(WasmMsg::Execute {
            contract_addr: s.text.clone(),
            msg: Binary::from(s.payload.clone()),
            funds: coins,
        }),
        "wasm_inst" => CosmosMsg::Wasm(WasmMsg::Instantiate {
            admin: if s.n % 2 == 0 { None } else { Some(s.text.clone()) },
            code_id: s.n as u64,
            msg: Binary::from(s.payload.clone()),
            funds: coins,
            label: s.text.clone(),
        }),
        "wasm_inst2" => CosmosMsg::Wasm(WasmMsg::Instantiate2 {
            admin: None,
            code_id: s.n as u64,
            msg: Binary::from(s.payload.clone()),
            funds: coins,
            label: s.text.clone(),
            salt: Binary::from(s.text.as_bytes()),
        }),
        "wasm_migrate" => CosmosMsg::Wasm(WasmMsg::Migrate {
            contract_addr: s.text.clone(),
            new_code_id: s.n as u64,
            msg: Binary::from(s.payload.clone()),
        }),
        "wasm_update_admin" => CosmosMsg::Wasm(WasmMsg::UpdateAdmin {
            contract_addr: s.text.clone(),
            admin: format!("adm{}", s.n),
        }),
        "wasm_clear_admin" => CosmosMsg::Wasm(WasmMsg::ClearAdmin { contract_addr: s.text.clone() }),
        "staking" => CosmosMsg::Staking(sylvia::cw_std::StakingMsg::Delegate {
            validator: s.text.clone(),
            amount: coins[0].clone(),
        }),
        "distribution" => CosmosMsg::Distribution(sylvia::cw_std::DistributionMsg::SetWithdrawAddress {
            address: s.text.clone(),
        }),
        #[allow(deprecated)]
        "stargate" => CosmosMsg::Stargate { type_url: s.text.clone(), value: Binary::from(s.payload.clone()) },
        "ibc" => CosmosMsg::Ibc(sylvia::cw_std::IbcMsg::CloseChannel { channel_id: s.text.clone() }),
        "gov" => CosmosMsg::Gov(sylvia::cw_std::GovMsg::Vote {
            proposal_id: s.n as u64,
            option: sylvia::cw_std::VoteOption::Yes,
        }),
        "custom" => CosmosMsg::Custom(C::mk_custom(s.n)),
        other => panic!("unknown SubSpec kind {other}"),
    }
}

pub fn sub_msg_of<C: MkCustom>(s: &SubSpec) -> SubMsg<C> {
    SubMsg {
        id: s.id,
        payload: Binary::from(s.payload.clone()),
        msg: cosmos_msg_of::<C>(s),
        gas_limit: s.gas_limit,
        reply_on: reply_on_of(s.reply_on),
    }
}

fn probes<Q: CustomQuery>(
    storage: &dyn Storage,
    api: &dyn Api,
    querier: &QuerierWrapper<Q>,
) -> (Option<String>, String, String) {
    let sentinel = storage.get(K_SENTINEL).map(|b| String::from_utf8_lossy(&b).to_string());
    let api_probe = match api.addr_humanize(&CanonicalAddr::from(PROBE_CANON.to_vec())) {
        Ok(a) => a.to_string(),
        Err(e) => format!("api-error:{e}"),
    };
    let querier_probe = match querier.query_balance("vp_probe", "vpnonce") {
        Ok(c) => c.amount.to_string(),
        Err(e) => format!("querier-error:{e}"),
    };
    (sentinel, api_probe, querier_probe)
}

pub fn args_obj(args: Vec<(&str, Value)>) -> Value {
    Value::Object(args.into_iter().map(|(k, v)| (k.to_string(), v)).collect())
}

/// Serialise an argument with its own serde impl.
pub fn j<T: Serialize>(v: &T) -> Value {
    serde_json::to_value(v).expect("argument serialises")
}

/// Body of every state-changing echo handler.
#[allow(clippy::too_many_arguments)]
pub fn echo_mut<Q: CustomQuery, C: MkCustom + Serialize>(
    deps: DepsMut<Q>,
    env: &Env,
    info: Option<&MessageInfo>,
    id: &str,
    kind: &str,
    args: Vec<(&str, Value)>,
    extra: Value,
) -> Result<Response<C>, StdError> {
    let (sentinel, api_probe, querier_probe) = probes(deps.storage, deps.api, &deps.querier);
    let args = args_obj(args);
    let fail = deps.storage.get(K_FAIL).is_some();
    deps.storage.set(K_TOUCHED, id.as_bytes());
    // append-only storage log (used by the multitest histories)
    let mut slog: Vec<String> = deps
        .storage
        .get(K_LOG)
        .and_then(|b| serde_json::from_slice(&b).ok())
        .unwrap_or_default();
    // the funds the handler saw are part of the observable state (multitest histories)
    let funds = info.map(|i| serde_json::to_string(&i.funds).unwrap()).unwrap_or_default();
    slog.push(format!("{id}:{}:{funds}", args));
    deps.storage.set(K_LOG, &serde_json::to_vec(&slog).unwrap());

    let mut rec = CallRec {
        id: id.to_string(),
        kind: kind.to_string(),
        args: args.clone(),
        env: serde_json::to_value(env).unwrap(),
        info: info.map(|i| serde_json::to_value(i).unwrap()).unwrap_or(Value::Null),
        sentinel,
        api_probe,
        querier_probe,
        extra,
        returned: Value::Null,
    };
    if fail {
        let e = StdError::generic_err(format!("fail:{id}"));
        rec.returned = json!({"err": e.to_string()});
        log_push(rec);
        return Err(e);
    }
    let mut resp: Response<C> = Response::new()
        .add_attribute("echo", id)
        .add_attribute("args", args.to_string())
        .add_event(Event::new("echo").add_attribute("id", id))
        .set_data(id.as_bytes().to_vec());
    if let Some(spec) = deps.storage.get(K_SPEC) {
        let spec: RespSpec = serde_json::from_slice(&spec).expect("resp spec parses");
        for m in &spec.msgs {
            resp = resp.add_submessage(sub_msg_of::<C>(m));
        }
        for (k, v) in &spec.attrs {
            resp = resp.add_attribute(k, v);
        }
        for (ty, attrs) in &spec.events {
            let mut e = Event::new(ty);
            for (k, v) in attrs {
                e = e.add_attribute(k, v);
            }
            resp = resp.add_event(e);
        }
        resp.data = spec.data.clone().map(Binary::from);
    }
    rec.returned = json!({"ok": serde_json::to_value(&resp).unwrap()});
    log_push(rec);
    Ok(resp)
}

/// Body of every echo query handler; `mk` builds the response value from the record text.
pub fn echo_query<Q: CustomQuery, R: Serialize>(
    deps: Deps<Q>,
    env: &Env,
    id: &str,
    args: Vec<(&str, Value)>,
    mk: impl FnOnce(&str) -> R,
) -> Result<R, StdError> {
    let (sentinel, api_probe, querier_probe) = probes(deps.storage, deps.api, &deps.querier);
    let args = args_obj(args);
    let fail = deps.storage.get(K_FAIL).is_some();
    let mut rec = CallRec {
        id: id.to_string(),
        kind: "query".to_string(),
        args: args.clone(),
        env: serde_json::to_value(env).unwrap(),
        info: Value::Null,
        sentinel,
        api_probe,
        querier_probe,
        extra: Value::Null,
        returned: Value::Null,
    };
    if fail {
        let e = StdError::generic_err(format!("fail:{id}"));
        rec.returned = json!({"err": e.to_string()});
        log_push(rec);
        return Err(e);
    }
    let text = format!("{id}:{args}");
    let r = mk(&text);
    rec.returned = json!({"ok": serde_json::to_value(&r).unwrap()});
    log_push(rec);
    Ok(r)
}

/// Convert the echo failure into the custom error (used by handlers whose declared error
/// type is the custom one).
pub fn to_cerr(e: StdError) -> CErr {
    let text = e.to_string();
    match text.find("fail:") {
        Some(pos) => CErr::Custom { id: text[pos + 5..].to_string() },
        None => CErr::Std(e),
    }
}

pub fn wasm_msg_of(s: &SubSpec) -> WasmMsg {
    match cosmos_msg_of::<sylvia::cw_std::Empty>(s) {
        CosmosMsg::Wasm(w) => w,
        other => panic!("SubSpec {other:?} is not a wasm message"),
    }
}

pub fn reply_extra(gas_used: u64, events: &[Event], msg_responses: &[sylvia::cw_std::MsgResponse]) -> Value {
    json!({"gas_used": gas_used, "events": events, "msg_responses": msg_responses})
}

pub fn inst_json(d: &sylvia::cw_utils::MsgInstantiateContractResponse) -> Value {
    json!({"contract_address": d.contract_address, "data": d.data})
}
pub fn inst_opt_json(d: &Option<sylvia::cw_utils::MsgInstantiateContractResponse>) -> Value {
    match d {
        Some(d) => inst_json(d),
        None => Value::Null,
    }
}

pub fn to_bin<T: Serialize>(v: &T) -> Binary {
    sylvia::cw_std::to_json_binary(v).expect("value serialises")
}
