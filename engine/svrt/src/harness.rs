//! Mock environment owned by the harness: storage / api / querier with per-case nonces so
//! that echo handlers can prove they were given *these* objects.

use crate::echo::{CallRec, K_FAIL, K_SENTINEL, K_SPEC, PROBE_CANON};
use crate::types::{ErrRepr, ErrView};
use serde::Serialize;
use serde_json::Value;
use std::cell::RefCell;
use sylvia::cw_std::testing::{mock_env, MockApi, MockStorage};
use sylvia::cw_std::{
    to_json_binary, Addr, Api, BalanceResponse, Binary, CanonicalAddr, Coin, ContractResult,
    CustomQuery, Deps, DepsMut, Env, MessageInfo, Querier, QuerierResult, QuerierWrapper, Response,
    Storage, SystemError, SystemResult, Timestamp, TransactionInfo, Uint128,
};

/// Querier answering the balance probe with the nonce and recording / answering smart
/// queries through a hook.
pub struct HQuerier {
    pub nonce: u128,
    pub smart_seen: RefCell<Vec<(String, Vec<u8>)>>,
    #[allow(clippy::type_complexity)]
    pub smart_hook: RefCell<Option<Box<dyn Fn(&str, &[u8]) -> Result<Vec<u8>, String>>>>,
}

impl Querier for HQuerier {
    fn raw_query(&self, bin_request: &[u8]) -> QuerierResult {
        let v: Value = match serde_json::from_slice(bin_request) {
            Ok(v) => v,
            Err(e) => {
                return SystemResult::Err(SystemError::InvalidRequest {
                    error: e.to_string(),
                    request: Binary::from(bin_request),
                })
            }
        };
        if let Some(b) = v.get("bank").and_then(|b| b.get("balance")) {
            let denom = b.get("denom").and_then(|d| d.as_str()).unwrap_or("").to_string();
            let resp = BalanceResponse::new(Coin { denom, amount: Uint128::new(self.nonce) });
            return SystemResult::Ok(ContractResult::Ok(to_json_binary(&resp).unwrap()));
        }
        if let Some(s) = v.get("wasm").and_then(|w| w.get("smart")) {
            let addr = s.get("contract_addr").and_then(|d| d.as_str()).unwrap_or("").to_string();
            let msg: Binary = serde_json::from_value(s.get("msg").cloned().unwrap_or(Value::Null))
                .unwrap_or_default();
            self.smart_seen.borrow_mut().push((addr.clone(), msg.to_vec()));
            if let Some(h) = self.smart_hook.borrow().as_ref() {
                return match h(&addr, msg.as_slice()) {
                    Ok(b) => SystemResult::Ok(ContractResult::Ok(Binary::from(b))),
                    Err(e) => SystemResult::Ok(ContractResult::Err(e)),
                };
            }
            return SystemResult::Err(SystemError::NoSuchContract { addr });
        }
        SystemResult::Err(SystemError::UnsupportedRequest { kind: v.to_string() })
    }
}

pub struct Harness {
    pub storage: MockStorage,
    pub api: MockApi,
    pub querier: HQuerier,
    pub env: Env,
    pub info: MessageInfo,
    pub nonce: u64,
}

impl Harness {
    pub fn new(nonce: u64) -> Self {
        let prefix: &'static str = Box::leak(format!("vp{}x", nonce % 1000).into_boxed_str());
        let mut storage = MockStorage::new();
        storage.set(K_SENTINEL, format!("sentinel-{nonce}").as_bytes());
        Harness {
            storage,
            api: MockApi::default().with_prefix(prefix),
            querier: HQuerier {
                nonce: nonce as u128 + 1,
                smart_seen: RefCell::new(vec![]),
                smart_hook: RefCell::new(None),
            },
            env: mock_env(),
            info: MessageInfo { sender: Addr::unchecked("sender"), funds: vec![] },
            nonce,
        }
    }
    /// Randomise env / info from a small description.
    pub fn set_env(&mut self, height: u64, nanos: u64, chain: &str, contract: &str, tx: Option<u32>) {
        self.env.block.height = height;
        self.env.block.time = Timestamp::from_nanos(nanos);
        self.env.block.chain_id = chain.to_string();
        self.env.contract.address = Addr::unchecked(contract);
        self.env.transaction = tx.map(|index| TransactionInfo { index });
    }
    pub fn set_info(&mut self, sender: &str, funds: Vec<Coin>) {
        self.info = MessageInfo { sender: Addr::unchecked(sender), funds };
    }
    pub fn set_fail(&mut self, fail: bool) {
        if fail {
            self.storage.set(K_FAIL, b"1");
        } else {
            self.storage.remove(K_FAIL);
        }
    }
    pub fn set_spec(&mut self, spec: Option<&crate::echo::RespSpec>) {
        match spec {
            Some(s) => self.storage.set(K_SPEC, &serde_json::to_vec(s).unwrap()),
            None => self.storage.remove(K_SPEC),
        }
    }
    pub fn expected_sentinel(&self) -> String {
        format!("sentinel-{}", self.nonce)
    }
    pub fn expected_api_probe(&self) -> String {
        self.api.addr_humanize(&CanonicalAddr::from(PROBE_CANON.to_vec())).unwrap().to_string()
    }
    pub fn expected_querier_probe(&self) -> String {
        (self.nonce as u128 + 1).to_string()
    }
    pub fn ctx3<Q: CustomQuery>(&mut self) -> (DepsMut<'_, Q>, Env, MessageInfo) {
        (
            DepsMut { storage: &mut self.storage, api: &self.api, querier: QuerierWrapper::new(&self.querier) },
            self.env.clone(),
            self.info.clone(),
        )
    }
    pub fn ctx2<Q: CustomQuery>(&mut self) -> (DepsMut<'_, Q>, Env) {
        (
            DepsMut { storage: &mut self.storage, api: &self.api, querier: QuerierWrapper::new(&self.querier) },
            self.env.clone(),
        )
    }
    pub fn qctx<Q: CustomQuery>(&self) -> (Deps<'_, Q>, Env) {
        (
            Deps { storage: &self.storage, api: &self.api, querier: QuerierWrapper::new(&self.querier) },
            self.env.clone(),
        )
    }
    pub fn storage_dump(&self) -> Vec<(Vec<u8>, Vec<u8>)> {
        self.storage.range(None, None, sylvia::cw_std::Order::Ascending).collect()
    }
}

#[derive(Clone, Debug, PartialEq)]
pub enum OkRepr {
    /// `serde_json::to_value(Response<C>)`
    Response(Value),
    Binary(Vec<u8>),
}

#[derive(Clone, Debug, PartialEq)]
pub struct CallOut {
    pub result: Result<OkRepr, ErrRepr>,
    pub log: Vec<CallRec>,
}

pub fn out_resp<C: Serialize, E: ErrView>(r: Result<Response<C>, E>) -> CallOut {
    CallOut {
        result: match r {
            Ok(resp) => Ok(OkRepr::Response(serde_json::to_value(&resp).unwrap())),
            Err(e) => Err(e.view()),
        },
        log: crate::echo::log_take(),
    }
}

pub fn out_bin<E: ErrView>(r: Result<Binary, E>) -> CallOut {
    CallOut {
        result: match r {
            Ok(b) => Ok(OkRepr::Binary(b.to_vec())),
            Err(e) => Err(e.view()),
        },
        log: crate::echo::log_take(),
    }
}

/// Call one operation of the `cw_multi_test::Contract` impl sylvia generated.
pub fn mt_call<T, C, Q>(contract: &T, kind: svmodel::Kind, h: &mut Harness, bytes: &[u8]) -> Result<CallOut, String>
where
    T: sylvia::cw_multi_test::Contract<C, Q>,
    C: sylvia::cw_std::CustomMsg + Serialize,
    Q: CustomQuery + serde::de::DeserializeOwned,
{
    use svmodel::Kind;
    crate::echo::log_clear();
    let msg = bytes.to_vec();
    Ok(match kind {
        Kind::Exec => {
            let (d, e, i) = h.ctx3::<Q>();
            out_resp(contract.execute(d, e, i, msg))
        }
        Kind::Instantiate => {
            let (d, e, i) = h.ctx3::<Q>();
            out_resp(contract.instantiate(d, e, i, msg))
        }
        Kind::Query => {
            let (d, e) = h.qctx::<Q>();
            out_bin(contract.query(d, e, msg))
        }
        Kind::Sudo => {
            let (d, e) = h.ctx2::<Q>();
            out_resp(contract.sudo(d, e, msg))
        }
        Kind::Migrate => {
            let (d, e) = h.ctx2::<Q>();
            out_resp(contract.migrate(d, e, msg))
        }
        Kind::Reply => {
            let (d, e) = h.ctx2::<Q>();
            let reply: sylvia::cw_std::Reply = serde_json::from_slice(bytes).map_err(|e| e.to_string())?;
            out_resp(contract.reply(d, e, reply))
        }
    })
}
