//! Runtime support linked into generated corpus crates: value types, echo handlers, mock
//! harness, type-erased access to the generated message types, and the property runners.

pub mod echo;
pub mod harness;
pub mod mt;
pub mod ops;
pub mod props;
pub mod report;
pub mod types;

pub use echo::*;
pub use harness::*;
pub use mt::*;
pub use ops::*;
pub use types::*;

pub use proptest;
pub use serde_json;
pub use svmodel;

/// Everything generated program sources need in scope, except the sylvia macros
/// themselves (those are imported through the corpus crate's own dependency name).
pub mod prelude {
    pub use crate::echo::{echo_mut, echo_query, to_cerr};
    pub use crate::types::*;
    pub use std::collections::BTreeMap;
    pub use std::marker::PhantomData;
    pub use sylvia::ctx::{ExecCtx, InstantiateCtx, MigrateCtx, QueryCtx, ReplyCtx, SudoCtx};
    pub use sylvia::cw_std::{
        Addr, Binary, Coin, Deps, DepsMut, Empty, Env, MessageInfo, Reply, Response, StdError,
        StdResult, SubMsgResult, Uint128,
    };
    pub use sylvia::cw_utils::MsgInstantiateContractResponse;
    #[allow(deprecated)]
    pub use sylvia::types::ReplyCtx as LegacyReplyCtx;
    pub use sylvia::types::{CustomMsg, CustomQuery};
}
