//! C12 support: a pair of identically seeded chains -- side A driven through sylvia's
//! generated multitest proxies, side B a plain cw-multi-test app driven with raw JSON.

use crate::echo::K_FAIL;
use crate::types::{ErrRepr, ErrView};
use serde_json::{json, Value};
use std::collections::BTreeMap;
use sylvia::cw_multi_test::{self as cwmt, AppResponse, BasicApp, Contract, Executor};
use sylvia::cw_std::{Addr, Binary, Coin, CosmosMsg, CustomMsg, CustomQuery, Storage, WasmMsg};

pub type RawApp<C, Q> = BasicApp<C, Q>;
pub type SvApp<C, Q> = sylvia::multitest::App<RawApp<C, Q>>;

#[derive(Clone, Debug, Default)]
pub struct InstOpts {
    pub label: Option<String>,
    pub admin: Option<String>,
    pub funds: Option<Vec<Coin>>,
    pub salt: Option<Vec<u8>>,
    /// earlier calls of the Option-typed setters on the same proxy (`with_admin`, `with_salt`),
    /// overwritten by the final ones (an explicit `None` if the final value is unset)
    pub pre_admin: Vec<Option<String>>,
    pub pre_salt: Vec<Option<Vec<u8>>>,
}

type ExecFn<C, Q> = Box<dyn Fn(&SvApp<C, Q>, &Addr, &[Value], &[Coin], &Addr) -> Result<AppResponse, ErrRepr>>;
type QueryFn<C, Q> = Box<dyn Fn(&SvApp<C, Q>, &Addr, &[Value]) -> Result<Value, ErrRepr>>;
type SudoFn<C, Q> = Box<dyn Fn(&SvApp<C, Q>, &Addr, &[Value]) -> Result<AppResponse, ErrRepr>>;
type MigrateFn<C, Q> = Box<dyn Fn(&SvApp<C, Q>, &Addr, &[Value], &Addr, u64) -> Result<AppResponse, ErrRepr>>;
type InstFn<C, Q> = Box<dyn Fn(&SvApp<C, Q>, &[Value], &InstOpts, &Addr) -> Result<(u64, Addr), ErrRepr>>;

/// Typed proxy calls generated per program.
#[allow(clippy::type_complexity)]
pub struct MtGlue<C: CustomMsg + 'static, Q: CustomQuery + 'static> {
    pub raw_contract: Box<dyn Fn() -> Box<dyn Contract<C, Q>>>,
    pub store: Box<dyn Fn(&SvApp<C, Q>) -> u64>,
    pub instantiate: InstFn<C, Q>,
    pub exec: BTreeMap<String, ExecFn<C, Q>>,
    pub query: BTreeMap<String, QueryFn<C, Q>>,
    pub sudo: BTreeMap<String, SudoFn<C, Q>>,
    pub migrate: Option<MigrateFn<C, Q>>,
}

#[derive(Debug, Clone, PartialEq)]
pub enum StepRes {
    /// address (instantiate), events+data (exec/sudo/migrate), value (query)
    Ok(Value),
    Err(ErrRepr),
    /// the proxy panicked (only legitimate for failures that do not come from a handler)
    Panicked,
}

pub trait MtWorld {
    fn senders(&self) -> Vec<String>;
    fn contracts(&self) -> usize;
    fn instantiate(&mut self, args: &[Value], body: &Value, opts: &InstOpts, sender: usize) -> (StepRes, StepRes);
    fn exec(&mut self, c: usize, id: &str, args: &[Value], doc: &Value, funds: &[Coin], sender: usize) -> (StepRes, StepRes);
    fn query(&mut self, c: usize, id: &str, args: &[Value], doc: &Value) -> (StepRes, StepRes);
    fn sudo(&mut self, c: usize, id: &str, args: &[Value], doc: &Value) -> (StepRes, StepRes);
    fn migrate(&mut self, c: usize, args: &[Value], body: &Value, sender: usize) -> Option<(StepRes, StepRes)>;
    fn set_fail(&mut self, c: usize, fail: bool);
    /// storage dump, contract info and balances of both chains: Err(description) on a difference
    fn compare_state(&self) -> Result<(), String>;
}

pub struct World<C: CustomMsg + 'static, Q: CustomQuery + 'static> {
    pub a: SvApp<C, Q>,
    pub b: RawApp<C, Q>,
    pub glue: MtGlue<C, Q>,
    pub senders: Vec<Addr>,
    pub contracts: Vec<(Addr, Addr)>,
}

fn view_app(r: &AppResponse) -> Value {
    json!({"events": r.events, "data": r.data})
}

fn catch<T>(f: impl FnOnce() -> Result<T, ErrRepr>) -> Result<Result<T, ErrRepr>, ()> {
    std::panic::catch_unwind(std::panic::AssertUnwindSafe(f)).map_err(|_| ())
}

impl<C, Q> World<C, Q>
where
    C: CustomMsg + serde::de::DeserializeOwned + 'static,
    Q: CustomQuery + serde::de::DeserializeOwned + schemars::JsonSchema + std::fmt::Debug + 'static,
{
    pub fn new(glue: MtGlue<C, Q>, balances: &[(String, Vec<Coin>)]) -> Self {
        let mk = |bal: &[(String, Vec<Coin>)]| {
            let bal = bal.to_vec();
            cwmt::custom_app::<C, Q, _>(move |router, api, storage| {
                for (name, coins) in &bal {
                    let addr = api.addr_make(name);
                    router.bank.init_balance(storage, &addr, coins.clone()).unwrap();
                }
            })
        };
        let a = sylvia::multitest::App::new(mk(balances));
        let b = mk(balances);
        let senders = balances.iter().map(|(n, _)| b.api().addr_make(n)).collect();
        World { a, b, glue, senders, contracts: vec![] }
    }

    fn exec_b(&mut self, sender: &Addr, msg: WasmMsg) -> Result<AppResponse, ErrRepr> {
        self.b.execute(sender.clone(), CosmosMsg::Wasm(msg)).map_err(|e| e.view())
    }
}

fn res_of<T>(r: Result<Result<T, ErrRepr>, ()>, f: impl FnOnce(&T) -> Value) -> StepRes {
    match r {
        Err(()) => StepRes::Panicked,
        Ok(Err(e)) => StepRes::Err(e),
        Ok(Ok(v)) => StepRes::Ok(f(&v)),
    }
}

impl<C, Q> MtWorld for World<C, Q>
where
    C: CustomMsg + serde::de::DeserializeOwned + 'static,
    Q: CustomQuery + serde::de::DeserializeOwned + schemars::JsonSchema + std::fmt::Debug + 'static,
{
    fn senders(&self) -> Vec<String> {
        self.senders.iter().map(|a| a.to_string()).collect()
    }
    fn contracts(&self) -> usize {
        self.contracts.len()
    }

    fn instantiate(&mut self, args: &[Value], body: &Value, opts: &InstOpts, sender: usize) -> (StepRes, StepRes) {
        let sender = self.senders[sender % self.senders.len()].clone();
        // side A: store + instantiate through the proxies
        let ra = catch(|| (self.glue.instantiate)(&self.a, args, opts, &sender));
        // side B: store + raw message
        let code_b = self.b.store_code((self.glue.raw_contract)());
        let msg = Binary::from(serde_json::to_vec(body).unwrap());
        let label = opts.label.clone().unwrap_or_else(|| "Contract".to_string());
        let funds = opts.funds.clone().unwrap_or_default();
        let wasm = match &opts.salt {
            Some(salt) => WasmMsg::Instantiate2 { admin: opts.admin.clone(), code_id: code_b, label, msg, funds, salt: Binary::from(salt.clone()) },
            None => WasmMsg::Instantiate { admin: opts.admin.clone(), code_id: code_b, label, msg, funds },
        };
        let rb = self.exec_b(&sender, wasm).and_then(|resp| {
            let data = resp.data.ok_or_else(|| ErrRepr { class: crate::types::ErrClass::Other, text: "no instantiate data".into() })?;
            sylvia::cw_utils::parse_instantiate_response_data(data.as_slice())
                .map(|d| Addr::unchecked(d.contract_address))
                .map_err(|e| ErrRepr { class: crate::types::ErrClass::Other, text: e.to_string() })
        });
        let sa = match &ra {
            Ok(Ok((code_a, addr))) => {
                if *code_a != code_b {
                    StepRes::Err(ErrRepr { class: crate::types::ErrClass::Other, text: format!("code ids diverge: {code_a} vs {code_b}") })
                } else {
                    StepRes::Ok(json!(addr.to_string()))
                }
            }
            Ok(Err(e)) => StepRes::Err(e.clone()),
            Err(()) => StepRes::Panicked,
        };
        let sb = match &rb {
            Ok(addr) => StepRes::Ok(json!(addr.to_string())),
            Err(e) => StepRes::Err(e.clone()),
        };
        if let (Ok(Ok((_, aa))), Ok(ab)) = (&ra, &rb) {
            self.contracts.push((aa.clone(), ab.clone()));
        }
        // a failed proxy instantiate still stored a code on side A: keep code ids aligned
        (sa, sb)
    }

    fn exec(&mut self, c: usize, id: &str, args: &[Value], doc: &Value, funds: &[Coin], sender: usize) -> (StepRes, StepRes) {
        let (ca, cb) = self.contracts[c % self.contracts.len()].clone();
        let sender = self.senders[sender % self.senders.len()].clone();
        let f = &self.glue.exec[id];
        let ra = catch(|| f(&self.a, &ca, args, funds, &sender));
        // the chain's `execute_contract` operation: WasmMsg::Execute, then the protobuf wrapper
        // around the contract's data is removed
        let rb = self.exec_b(&sender, WasmMsg::Execute { contract_addr: cb.to_string(), msg: Binary::from(serde_json::to_vec(doc).unwrap()), funds: funds.to_vec() }).map(|mut r| {
            r.data = r.data.and_then(|d| sylvia::cw_utils::parse_execute_response_data(d.as_slice()).ok().and_then(|p| p.data));
            r
        });
        (res_of(ra, view_app), res_of(Ok(rb), view_app))
    }

    fn query(&mut self, c: usize, id: &str, args: &[Value], doc: &Value) -> (StepRes, StepRes) {
        let (ca, cb) = self.contracts[c % self.contracts.len()].clone();
        let f = &self.glue.query[id];
        let ra = catch(|| f(&self.a, &ca, args));
        let req: sylvia::cw_std::QueryRequest<Q> = sylvia::cw_std::QueryRequest::Wasm(sylvia::cw_std::WasmQuery::Smart { contract_addr: cb.to_string(), msg: Binary::from(serde_json::to_vec(doc).unwrap()) });
        use sylvia::cw_std::Querier;
        let rb: Result<Value, ErrRepr> = match self.b.raw_query(&sylvia::cw_std::to_json_vec(&req).unwrap()) {
            sylvia::cw_std::SystemResult::Ok(sylvia::cw_std::ContractResult::Ok(bin)) => serde_json::from_slice(bin.as_slice()).map_err(|e| ErrRepr { class: crate::types::ErrClass::Other, text: e.to_string() }),
            sylvia::cw_std::SystemResult::Ok(sylvia::cw_std::ContractResult::Err(e)) => Err(ErrRepr { class: crate::types::ErrClass::Other, text: e }),
            sylvia::cw_std::SystemResult::Err(e) => Err(ErrRepr { class: crate::types::ErrClass::Other, text: e.to_string() }),
        };
        (res_of(ra, |v| v.clone()), res_of(Ok(rb), |v| v.clone()))
    }

    fn sudo(&mut self, c: usize, id: &str, args: &[Value], doc: &Value) -> (StepRes, StepRes) {
        let (ca, cb) = self.contracts[c % self.contracts.len()].clone();
        let f = &self.glue.sudo[id];
        let ra = catch(|| f(&self.a, &ca, args));
        let rb = self
            .b
            .sudo(cwmt::SudoMsg::Wasm(cwmt::WasmSudo { contract_addr: cb, message: Binary::from(serde_json::to_vec(doc).unwrap()) }))
            .map_err(|e| e.view());
        (res_of(ra, view_app), res_of(Ok(rb), view_app))
    }

    fn migrate(&mut self, c: usize, args: &[Value], body: &Value, sender: usize) -> Option<(StepRes, StepRes)> {
        let f = self.glue.migrate.as_ref()?;
        let (ca, cb) = self.contracts[c % self.contracts.len()].clone();
        let sender = self.senders[sender % self.senders.len()].clone();
        let code_a = (self.glue.store)(&self.a);
        let code_b = self.b.store_code((self.glue.raw_contract)());
        if code_a != code_b {
            let e = ErrRepr { class: crate::types::ErrClass::Other, text: format!("code ids diverge: {code_a} vs {code_b}") };
            return Some((StepRes::Err(e.clone()), StepRes::Ok(Value::Null)));
        }
        let ra = catch(|| f(&self.a, &ca, args, &sender, code_a));
        let rb = self.exec_b(&sender, WasmMsg::Migrate { contract_addr: cb.to_string(), new_code_id: code_b, msg: Binary::from(serde_json::to_vec(body).unwrap()) });
        Some((res_of(ra, view_app), res_of(Ok(rb), view_app)))
    }

    fn set_fail(&mut self, c: usize, fail: bool) {
        let (ca, cb) = self.contracts[c % self.contracts.len()].clone();
        {
            let mut app = self.a.app_mut();
            let mut st = app.contract_storage_mut(&ca);
            if fail {
                st.set(K_FAIL, b"1");
            } else {
                st.remove(K_FAIL);
            }
        }
        let mut st = self.b.contract_storage_mut(&cb);
        if fail {
            st.set(K_FAIL, b"1");
        } else {
            st.remove(K_FAIL);
        }
    }

    fn compare_state(&self) -> Result<(), String> {
        let a = self.a.app();
        for (ca, cb) in &self.contracts {
            if ca != cb {
                return Err(format!("contract addresses differ: {ca} vs {cb}"));
            }
            let da = a.dump_wasm_raw(ca);
            let db = self.b.dump_wasm_raw(cb);
            if da != db {
                let show = |d: &[(Vec<u8>, Vec<u8>)]| d.iter().map(|(k, v)| format!("{}={}", String::from_utf8_lossy(k), String::from_utf8_lossy(v))).collect::<Vec<_>>().join("; ");
                return Err(format!("storage of {ca} differs: proxy side [{}] raw side [{}]", show(&da), show(&db)));
            }
            let ia = a.contract_data(ca).map_err(|e| e.to_string())?;
            let ib = self.b.contract_data(cb).map_err(|e| e.to_string())?;
            let fa = (ia.code_id, ia.creator.to_string(), ia.admin.as_ref().map(|a| a.to_string()), ia.label.clone());
            let fb = (ib.code_id, ib.creator.to_string(), ib.admin.as_ref().map(|a| a.to_string()), ib.label.clone());
            if fa != fb {
                return Err(format!("contract info of {ca} differs: proxy side {fa:?} raw side {fb:?}"));
            }
        }
        let addrs: Vec<Addr> = self.senders.iter().cloned().chain(self.contracts.iter().map(|(c, _)| c.clone())).collect();
        for addr in addrs {
            let ba = a.wrap().query_all_balances(&addr).map_err(|e| e.to_string())?;
            let bb = self.b.wrap().query_all_balances(&addr).map_err(|e| e.to_string())?;
            if ba != bb {
                return Err(format!("balances of {addr} differ: proxy side {ba:?} raw side {bb:?}"));
            }
        }
        Ok(())
    }
}

#[allow(clippy::type_complexity)]
pub struct MtFactory(pub Box<dyn Fn(&[(String, Vec<Coin>)]) -> Box<dyn MtWorld> + Send + Sync>);

pub fn app_resp(r: AppResponse) -> AppResponse {
    r
}

pub fn harness_err(e: String) -> ErrRepr {
    ErrRepr { class: crate::types::ErrClass::Other, text: e }
}
