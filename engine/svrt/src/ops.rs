//! Type-erased access to the message types and entry points sylvia generated for one
//! program.  The generated glue fills a `ProgBuilder`; property code only sees `Prog`.

use crate::harness::{CallOut, Harness};
use schemars::schema::RootSchema;
use serde::de::DeserializeOwned;
use serde::Serialize;
use serde_json::Value;
use std::any::Any;
use std::collections::BTreeMap;
use std::fmt::Debug;
use svmodel::{Kind, Program};
use sylvia::schemars::{self, JsonSchema};

pub type AnyMsg = Box<dyn Any>;

pub trait MsgOps: Send + Sync {
    fn from_json(&self, bytes: &[u8]) -> Result<AnyMsg, String>;
    fn to_json(&self, m: &dyn Any) -> Result<String, String>;
    fn eq(&self, a: &dyn Any, b: &dyn Any) -> bool;
    fn dup(&self, a: &dyn Any) -> AnyMsg;
    fn debug(&self, a: &dyn Any) -> String;
    fn dispatch(&self, m: AnyMsg, h: &mut Harness) -> CallOut;
    /// `<ep>_messages()` of the part (None for wrappers and struct messages)
    fn names(&self) -> Option<Vec<String>>;
    fn schema(&self) -> RootSchema;
    /// `QueryResponses::response_schemas()` (query types only)
    fn response_schemas(&self) -> Option<Result<BTreeMap<String, RootSchema>, String>>;
    fn type_name(&self) -> &'static str;
}

type DispatchFn<M> = Box<dyn Fn(M, &mut Harness) -> CallOut + Send + Sync>;
type SchemasFn = fn() -> Result<BTreeMap<String, RootSchema>, String>;

pub struct Ops<M> {
    names: Option<fn() -> Vec<String>>,
    dispatch: DispatchFn<M>,
    schemas: Option<SchemasFn>,
}

impl<M> Ops<M> {
    pub fn new(
        names: Option<fn() -> Vec<String>>,
        dispatch: impl Fn(M, &mut Harness) -> CallOut + Send + Sync + 'static,
    ) -> Self {
        Ops { names, dispatch: Box::new(dispatch), schemas: None }
    }
    pub fn with_schemas(mut self, f: SchemasFn) -> Self {
        self.schemas = Some(f);
        self
    }
}

impl<M> MsgOps for Ops<M>
where
    M: Serialize + DeserializeOwned + Clone + PartialEq + Debug + JsonSchema + 'static,
{
    fn from_json(&self, bytes: &[u8]) -> Result<AnyMsg, String> {
        sylvia::cw_std::from_json::<M>(bytes).map(|m| Box::new(m) as AnyMsg).map_err(|e| e.to_string())
    }
    fn to_json(&self, m: &dyn Any) -> Result<String, String> {
        let m = m.downcast_ref::<M>().expect("message type");
        sylvia::cw_std::to_json_string(m).map_err(|e| e.to_string())
    }
    fn eq(&self, a: &dyn Any, b: &dyn Any) -> bool {
        a.downcast_ref::<M>().expect("message type") == b.downcast_ref::<M>().expect("message type")
    }
    fn dup(&self, a: &dyn Any) -> AnyMsg {
        Box::new(a.downcast_ref::<M>().expect("message type").clone())
    }
    fn debug(&self, a: &dyn Any) -> String {
        format!("{:?}", a.downcast_ref::<M>().expect("message type"))
    }
    fn dispatch(&self, m: AnyMsg, h: &mut Harness) -> CallOut {
        crate::echo::log_clear();
        let m = *m.downcast::<M>().expect("message type");
        (self.dispatch)(m, h)
    }
    fn names(&self) -> Option<Vec<String>> {
        self.names.map(|f| f())
    }
    fn schema(&self) -> RootSchema {
        schemars::schema_for!(M)
    }
    fn response_schemas(&self) -> Option<Result<BTreeMap<String, RootSchema>, String>> {
        // a panic inside the generated `response_schemas_impl` means the table is not produced:
        // reported as an error of the table, not as a harness failure
        self.schemas.map(|f| {
            std::panic::catch_unwind(f).unwrap_or_else(|p| {
                let msg = p.downcast_ref::<String>().cloned().or_else(|| p.downcast_ref::<&str>().map(|s| s.to_string())).unwrap_or_else(|| "<panic>".into());
                Err(format!("panicked: {msg}"))
            })
        })
    }
    fn type_name(&self) -> &'static str {
        std::any::type_name::<M>()
    }
}

/// A typed message built two ways from the same typed arguments.
pub struct Built {
    pub lit: AnyMsg,
    pub ctor: AnyMsg,
}
impl Built {
    pub fn new<M: 'static>(lit: M, ctor: M) -> Self {
        Built { lit: Box::new(lit), ctor: Box::new(ctor) }
    }
}

/// Decode one model argument into its Rust type using the type's own serde impl and check
/// that it re-encodes to the same JSON (guards the model encoder, not sylvia).
pub fn arg<T: DeserializeOwned + Serialize>(args: &[Value], i: usize) -> Result<T, String> {
    let v = args.get(i).ok_or_else(|| format!("missing model argument {i}"))?;
    let t: T = serde_json::from_value(v.clone()).map_err(|e| format!("HARNESS: model arg {i} `{v}` does not decode: {e}"))?;
    let back = serde_json::to_value(&t).map_err(|e| e.to_string())?;
    if &back != v {
        return Err(format!("HARNESS: model arg {i} `{v}` re-encodes as `{back}`"));
    }
    Ok(t)
}

pub type BuildFn = Box<dyn Fn(&[Value]) -> Result<Built, String> + Send + Sync>;
pub type WrapFn = Box<dyn Fn(AnyMsg) -> AnyMsg + Send + Sync>;
/// call an entry point with raw JSON bytes; `Err` = the message did not decode
pub type EntryFn = Box<dyn Fn(&mut Harness, &[u8]) -> Result<CallOut, String> + Send + Sync>;

pub struct Prog {
    pub model: Program,
    pub model_json: String,
    pub parts: Vec<BTreeMap<Kind, Box<dyn MsgOps>>>,
    pub wrappers: BTreeMap<Kind, Box<dyn MsgOps>>,
    pub wraps: BTreeMap<(usize, Kind), WrapFn>,
    /// keyed by handler id
    pub builders: BTreeMap<String, BuildFn>,
    pub entries: BTreeMap<Kind, EntryFn>,
    pub mt_entries: BTreeMap<Kind, EntryFn>,
    /// free-form extension points used by individual properties
    pub extras: BTreeMap<String, Box<dyn Any + Send + Sync>>,
}

/// Response tables of a second instantiation of a generic contract: (tables of the parts, contract-level table).
#[allow(clippy::type_complexity)]
pub struct AltSchemas(pub fn() -> Result<(Vec<BTreeMap<String, RootSchema>>, BTreeMap<String, RootSchema>), String>);

pub struct ProgBuilder {
    p: Prog,
}

impl ProgBuilder {
    pub fn new(model_json: &str) -> Self {
        let model: Program = serde_json::from_str(model_json).expect("embedded model parses");
        let parts = (0..model.parts()).map(|_| BTreeMap::new()).collect();
        ProgBuilder {
            p: Prog {
                model,
                model_json: model_json.to_string(),
                parts,
                wrappers: BTreeMap::new(),
                wraps: BTreeMap::new(),
                builders: BTreeMap::new(),
                entries: BTreeMap::new(),
                mt_entries: BTreeMap::new(),
                extras: BTreeMap::new(),
            },
        }
    }
    pub fn part(&mut self, part: usize, kind: Kind, ops: impl MsgOps + 'static) {
        self.p.parts[part].insert(kind, Box::new(ops));
    }
    pub fn wrapper(&mut self, kind: Kind, ops: impl MsgOps + 'static) {
        self.p.wrappers.insert(kind, Box::new(ops));
    }
    pub fn wrap(&mut self, part: usize, kind: Kind, f: impl Fn(AnyMsg) -> AnyMsg + Send + Sync + 'static) {
        self.p.wraps.insert((part, kind), Box::new(f));
    }
    pub fn builder(&mut self, id: &str, f: impl Fn(&[Value]) -> Result<Built, String> + Send + Sync + 'static) {
        self.p.builders.insert(id.to_string(), Box::new(f));
    }
    pub fn entry(&mut self, kind: Kind, f: impl Fn(&mut Harness, &[u8]) -> Result<CallOut, String> + Send + Sync + 'static) {
        self.p.entries.insert(kind, Box::new(f));
    }
    pub fn mt_entry(&mut self, kind: Kind, f: impl Fn(&mut Harness, &[u8]) -> Result<CallOut, String> + Send + Sync + 'static) {
        self.p.mt_entries.insert(kind, Box::new(f));
    }
    pub fn extra(&mut self, key: &str, v: impl Any + Send + Sync) {
        self.p.extras.insert(key.to_string(), Box::new(v));
    }
    pub fn finish(self) -> Prog {
        self.p
    }
}

pub fn names_vec<const N: usize>(a: [&'static str; N]) -> Vec<String> {
    a.iter().map(|s| s.to_string()).collect()
}

/// Remote helper closures registered by the glue (see `render_helpers`).
#[allow(clippy::type_complexity)]
pub struct ExecHelper(pub Box<dyn Fn(&str, Option<Vec<sylvia::cw_std::Coin>>, &[Value]) -> Result<sylvia::cw_std::WasmMsg, String> + Send + Sync>);
#[allow(clippy::type_complexity)]
pub struct QueryHelper(pub Box<dyn Fn(&Harness, &str, &[Value]) -> Result<Value, String> + Send + Sync>);
#[allow(clippy::type_complexity)]
pub struct InstHelper(pub Box<dyn Fn(u64, &[Value]) -> Result<sylvia::builder::instantiate::InstantiateBuilder, String> + Send + Sync>);

impl Prog {
    pub fn extra<T: 'static>(&self, key: &str) -> Option<&T> {
        self.extras.get(key).and_then(|b| b.downcast_ref::<T>())
    }
}

pub struct ReplyIds(pub Vec<(String, u64)>);
#[allow(clippy::type_complexity)]
pub struct ReplyDispatch(pub Box<dyn Fn(&mut Harness, sylvia::cw_std::Reply) -> CallOut + Send + Sync>);
pub enum Recv<'a> {
    Sub(&'a crate::echo::SubSpec),
    Wasm(&'a crate::echo::SubSpec),
    Cosmos(&'a crate::echo::SubSpec),
}
#[allow(clippy::type_complexity)]
pub struct SubMsgHelper(pub Box<dyn Fn(Recv, &[Value]) -> Result<Value, String> + Send + Sync>);
