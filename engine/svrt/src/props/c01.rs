//! C01 -- generated messages have the JSON shape named by the method signature.

use super::*;
use svmodel::{HandlerView, Kind};

pub fn is_s1(name: &str) -> bool {
    if name.is_empty() {
        return false;
    }
    name.split('_').all(|w| {
        let letters = w.chars().take_while(|c| c.is_ascii_lowercase()).count();
        letters > 0 && w[letters..].chars().all(|c| c.is_ascii_digit())
    })
}

/// expected body object `{arg: value, ..}` of a handler
pub fn body_of(h: &HandlerView, args: &[Value]) -> Value {
    Value::Object(h.args.iter().zip(args).map(|(a, v)| (a.key().to_string(), v.clone())).collect())
}

/// expected document of a handler whose wire name is `name`
pub fn doc_of(h: &HandlerView, name: &str, args: &[Value]) -> Value {
    if h.kind.is_enum() {
        json!({ name: body_of(h, args) })
    } else {
        body_of(h, args)
    }
}

/// The wire name a part actually uses for a handler (top-level key of a serialised value).
pub fn observed_name(p: &Prog, h: &HandlerView, args: &[Value]) -> Result<String, Bad> {
    let ops = &p.parts[h.part][&h.kind];
    let built = (p.builders[&h.id])(args)?;
    let text = ops.to_json(&*built.lit).map_err(|e| viol("ser-fail", "message does not serialise", json!({"handler": h.id, "error": e})))?;
    let v: Value = serde_json::from_str(&text).map_err(|e| viol("ser-invalid-json", "serialised message is not JSON", json!({"handler": h.id, "text": text, "error": e.to_string()})))?;
    match v.as_object() {
        Some(o) if o.len() == 1 => Ok(o.keys().next().unwrap().clone()),
        _ => Err(viol(
            format!("shape:{}", h.kind.attr()),
            "enum message does not serialise to a single-key object",
            json!({"handler": h.id, "json": v}),
        )),
    }
}

pub fn run(p: &Prog, cfg: &Cfg, rep: &mut Report) {
    let handlers = p.model.handlers();
    for h in &handlers {
        let ops = &p.parts[h.part][&h.kind];
        let s1 = is_s1(&h.name);
        let words = h.name.split('_').filter(|w| !w.is_empty()).count();
        let digit = h.name.chars().any(|c| c.is_ascii_digit());
        let nontrivial = !h.args.is_empty() || words >= 2 || digit;
        let ok = run_cases(
            cfg,
            &p.model.id,
            &h.id,
            args_strategy(&h.conc),
            rep,
            |args, tally| {
                let built = (p.builders[&h.id])(args)?;
                tally.class(&format!("kind:{}", h.kind.attr()));
                tally.class(if h.part == 0 { "part:contract" } else { "part:interface" });
                tally.class(&format!("arity:{}", h.args.len()));
                tally.class(if s1 { "name:s1" } else { "name:s2" });
                if words >= 2 {
                    tally.class("name:multiword");
                }
                if digit {
                    tally.class("name:digit");
                }
                if !p.model.contract.generics.is_empty() {
                    tally.class("generic-contract");
                }
                let depth = h.conc.iter().map(|t| t.depth()).max().unwrap_or(0);
                tally.class(&format!("type-depth:{depth}"));
                if nontrivial {
                    tally.nontrivial(&(&p.model.id, &h.id, serde_json::to_string(args).unwrap()));
                }
                tally.sample(|| json!({"program": p.model.id, "handler": h.id, "args": args}));
                // (1) literal and constructor agree
                if !ops.eq(&*built.lit, &*built.ctor) {
                    return Err(viol(
                        format!("ctor:{}", h.kind.attr()),
                        "constructor builds a different value than the literal variant",
                        json!({"handler": h.id, "lit": ops.debug(&*built.lit), "ctor": ops.debug(&*built.ctor)}),
                    ));
                }
                // (2) JSON shape
                let text = ops
                    .to_json(&*built.lit)
                    .map_err(|e| viol("ser-fail", "message does not serialise", json!({"handler": h.id, "error": e})))?;
                let got: Value = serde_json::from_str(&text).map_err(|e| {
                    viol("ser-invalid-json", "serialised message is not JSON", json!({"handler": h.id, "text": text, "error": e.to_string()}))
                })?;
                let name = if s1 || !h.kind.is_enum() {
                    h.name.clone()
                } else {
                    // names outside the S1 shape are not judged here, only the body
                    match got.as_object() {
                        Some(o) if o.len() == 1 => o.keys().next().unwrap().clone(),
                        _ => {
                            return Err(viol(
                                format!("shape:{}", h.kind.attr()),
                                "enum message does not serialise to a single-key object",
                                json!({"handler": h.id, "json": got}),
                            ))
                        }
                    }
                };
                let expected = doc_of(h, &name, args);
                if got != expected {
                    return Err(viol(
                        format!("shape:{}", h.kind.attr()),
                        "serialised message differs from the shape named by the signature",
                        json!({"handler": h.id, "expected": expected, "got": got}),
                    ));
                }
                // (3) round trips: sylvia's own text and the model's text (other key order)
                for (label, t) in [("own", text.clone()), ("model", serde_json::to_string(&expected).unwrap())] {
                    match ops.from_json(t.as_bytes()) {
                        Ok(back) => {
                            if !ops.eq(&*back, &*built.lit) {
                                return Err(viol(
                                    format!("roundtrip:{}", h.kind.attr()),
                                    "parsing the JSON gives a different message",
                                    json!({"handler": h.id, "text": t, "source": label, "back": ops.debug(&*back), "orig": ops.debug(&*built.lit)}),
                                ));
                            }
                        }
                        Err(e) => {
                            return Err(viol(
                                format!("roundtrip-reject:{}", h.kind.attr()),
                                "the message type rejects the JSON of its own message",
                                json!({"handler": h.id, "text": t, "source": label, "error": e}),
                            ))
                        }
                    }
                }
                // the contract-level message of the kind is a message type too: it answers to
                // the same name and body
                if h.kind.is_enum() {
                    if let Some(w) = p.wrappers.get(&h.kind) {
                        let t = serde_json::to_string(&expected).unwrap();
                        if let Err(e) = w.from_json(t.as_bytes()) {
                            return Err(viol(
                                format!("wrapper-reject:{}", h.kind.attr()),
                                "the contract-level message type rejects the JSON named by the method signature",
                                json!({"handler": h.id, "text": t, "error": e}),
                            ));
                        }
                    }
                }
                Ok(())
            },
        );
        if !ok {
            return;
        }
    }
    acceptance(p, cfg, rep, &handlers);
}

pub fn mutations(name: &str) -> Vec<String> {
    let mut out = vec![];
    let chars: Vec<char> = name.chars().collect();
    // underscore inserted / removed at every letter<->digit boundary
    for i in 1..chars.len() {
        let (a, b) = (chars[i - 1], chars[i]);
        if (a.is_ascii_alphabetic() && b.is_ascii_digit()) || (a.is_ascii_digit() && b.is_ascii_alphabetic()) {
            let mut s: String = chars[..i].iter().collect();
            s.push('_');
            s.extend(chars[i..].iter());
            out.push(s);
        }
        if b == '_' && i + 1 < chars.len() {
            let mut s: String = chars[..i].iter().collect();
            s.extend(chars[i + 1..].iter());
            out.push(s);
        }
    }
    // CamelCase, prefix, suffix, upper
    let camel: String = name
        .split('_')
        .map(|w| {
            let mut c = w.chars();
            match c.next() {
                Some(f) => f.to_ascii_uppercase().to_string() + c.as_str(),
                None => String::new(),
            }
        })
        .collect();
    out.push(camel);
    out.push(format!("_{name}"));
    out.push(format!("{name}_"));
    out.push(format!("{name}x"));
    out.push(name.to_ascii_uppercase());
    if name.len() > 1 {
        out.push(name[..name.len() - 1].to_string());
    }
    out
}

/// Clause 4: each message type accepts one name per annotated method of its kind, no other.
fn acceptance(p: &Prog, cfg: &Cfg, rep: &mut Report, handlers: &[HandlerView]) {
    // one fixed argument sample per handler
    if cfg.replay_case.is_some() {
        return;
    }
    let mut observed: std::collections::BTreeMap<String, (String, Vec<Value>)> = Default::default();
    for h in handlers.iter().filter(|h| h.kind.is_enum()) {
        let args = draw(&args_strategy(&h.conc), seed_for(cfg, &p.model.id, &format!("acc:{}", h.id)));
        match observed_name(p, h, &args) {
            Ok(n) => {
                observed.insert(h.id.clone(), (n, args));
            }
            Err(bad) => {
                if !fail_fixed(rep, cfg, &p.model.id, "acceptance", json!({"handler": h.id}), bad) {
                    return;
                }
            }
        }
    }
    if observed.len() != handlers.iter().filter(|h| h.kind.is_enum()).count() {
        return;
    }
    let mut cands: Vec<String> = vec!["_phantom".into(), "__phantom".into(), "phantom".into(), "".into()];
    for h in handlers {
        cands.push(h.name.clone());
        cands.extend(mutations(&h.name));
    }
    cands.sort();
    cands.dedup();
    for part in 0..p.model.parts() {
        for kind in Kind::ENUMS {
            let Some(ops) = p.parts[part].get(&kind) else { continue };
            let mine: Vec<&HandlerView> = handlers.iter().filter(|h| h.part == part && h.kind == kind).collect();
            for cand in &cands {
                rep.evaluations += 1;
                let owner = mine.iter().find(|h| observed[&h.id].0 == *cand);
                // a method's name is offered with a body of that method; a foreign name with
                // every body shape a variant could take (unit-like, empty / sibling object, array)
                let bodies: Vec<Value> = match owner {
                    Some(h) => vec![body_of(h, &observed[&h.id].1)],
                    None => {
                        let mut b = vec![json!({}), Value::Null, json!([]), json!([null]), json!("")];
                        if let Some(h) = mine.first() {
                            b.push(body_of(h, &observed[&h.id].1));
                        }
                        b
                    }
                };
                let mut doc = json!({ cand.as_str(): bodies[0].clone() });
                let mut accepted = false;
                for body in &bodies {
                    let d = json!({ cand.as_str(): body });
                    if ops.from_json(d.to_string().as_bytes()).is_ok() {
                        accepted = true;
                        doc = d;
                        break;
                    }
                }
                rep.class(if owner.is_some() { "accept:method-name" } else { "accept:foreign-name" });
                if owner.is_none() {
                    rep.nontrivial(&(&p.model.id, part, kind, cand));
                }
                if accepted != owner.is_some() {
                    let bad = viol(
                        format!("accept:{}", kind.attr()),
                        if accepted {
                            "message type accepts a name that is not one of its methods"
                        } else {
                            "message type rejects the name of one of its methods"
                        },
                        json!({"part": p.model.part_name(part), "kind": kind.attr(), "doc": doc}),
                    );
                    if !fail_fixed(rep, cfg, &p.model.id, "acceptance", doc.clone(), bad) {
                        return;
                    }
                }
            }
            // S1 methods must be reachable under their own name
            for h in &mine {
                if is_s1(&h.name) && observed[&h.id].0 != h.name {
                    let bad = viol(
                        format!("shape:{}", kind.attr()),
                        "wire name differs from the method name",
                        json!({"handler": h.id, "wire": observed[&h.id].0}),
                    );
                    if !fail_fixed(rep, cfg, &p.model.id, "acceptance", json!({"handler": h.id}), bad) {
                        return;
                    }
                }
            }
        }
    }
}
