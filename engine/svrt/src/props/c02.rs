//! C02 -- dispatch runs exactly the annotated handler with the sent arguments.

use super::c01::body_of;
use super::*;
use crate::echo::{CallRec, K_TOUCHED};
use crate::harness::{CallOut, Harness, OkRepr};
use crate::types::{ErrClass, ErrRepr};
use proptest::prelude::*;
use svmodel::{ErrTy, HandlerView, Kind, Program};
use sylvia::cw_std::{Coin, Storage, Uint128};

#[derive(Clone, Debug)]
pub struct EnvCase {
    pub height: u64,
    pub nanos: u64,
    pub chain: String,
    pub contract: String,
    pub tx: Option<u32>,
    pub sender: String,
    pub funds: Vec<(String, u128)>,
    pub nonce: u64,
    pub fail: bool,
    /// what a mutating echo handler returns (sub-messages of every non-custom kind with id /
    /// gas limit / reply trigger / payload, attributes, events, data); None = a bare response
    pub resp: Option<crate::echo::RespSpec>,
}

impl EnvCase {
    pub fn json(&self) -> Value {
        json!({"height": self.height, "nanos": self.nanos, "chain": self.chain, "contract": self.contract,
               "tx": self.tx, "sender": self.sender, "funds": self.funds.iter().map(|(d, a)| json!([d, a.to_string()])).collect::<Vec<_>>(),
               "nonce": self.nonce, "fail": self.fail, "resp": self.resp})
    }
    pub fn harness(&self) -> Harness {
        let mut h = Harness::new(self.nonce);
        h.set_env(self.height, self.nanos, &self.chain, &self.contract, self.tx);
        h.set_info(
            &self.sender,
            self.funds.iter().map(|(d, a)| Coin { denom: d.clone(), amount: Uint128::new(*a) }).collect(),
        );
        h.set_fail(self.fail);
        h.set_spec(self.resp.as_ref());
        h
    }
}

impl Case for EnvCase {
    fn to_json(&self) -> Value {
        self.json()
    }
    fn from_json(v: &Value) -> Option<Self> {
        Some(EnvCase {
            height: v["height"].as_u64()?,
            nanos: v["nanos"].as_u64()?,
            chain: v["chain"].as_str()?.to_string(),
            contract: v["contract"].as_str()?.to_string(),
            tx: v["tx"].as_u64().map(|t| t as u32),
            sender: v["sender"].as_str()?.to_string(),
            funds: v["funds"]
                .as_array()?
                .iter()
                .map(|f| Some((f[0].as_str()?.to_string(), f[1].as_str()?.parse().ok()?)))
                .collect::<Option<Vec<_>>>()?,
            nonce: v["nonce"].as_u64()?,
            fail: v["fail"].as_bool()?,
            resp: serde_json::from_value(v["resp"].clone()).ok().flatten(),
        })
    }
}

pub fn env_strategy() -> BoxedStrategy<EnvCase> {
    (
        u64_edges(),
        u64_edges(),
        "[a-z0-9-]{1,12}",
        // contract address: any string is an `Addr::unchecked`; a quarter carry capitals
        // (checksummed hex, mixed-case names)
        prop_oneof![6 => "[a-z0-9]{1,16}", 1 => "[A-Za-z0-9]{1,20}", 1 => "0x[0-9a-fA-F]{40}"],
        proptest::option::of(any::<u32>()),
        prop_oneof![6 => "[a-z0-9]{1,12}", 1 => "[A-Za-z0-9]{1,16}"],
        proptest::collection::vec(
            (prop_oneof![2 => "[a-z]{3,6}", 1 => Just("uatom".to_string()), 1 => Just("uosmo".to_string())], prop_oneof![3 => any::<u128>(), 2 => Just(0u128), 1 => Just(1u128), 1 => Just(u128::MAX)]),
            0..6,
        ),
        0u64..1_000_000,
        proptest::bool::weighted(0.3),
    )
        .prop_map(|(height, nanos, chain, contract, tx, sender, funds, nonce, fail)| EnvCase {
            height,
            nanos,
            chain,
            contract,
            tx,
            sender,
            funds,
            nonce,
            fail,
            resp: None,
        })
        .boxed()
}

/// `env_strategy` plus a generated response for the handler to return ("response untouched").
pub fn env_strategy_with_resp() -> BoxedStrategy<EnvCase> {
    (env_strategy(), proptest::option::weighted(0.6, super::rt::resp_spec_strategy_plain()))
        .prop_map(|(mut e, r)| {
            e.resp = r;
            e
        })
        .boxed()
}

/// The error the caller must see when handler `h` fails (model side).
pub fn expected_err(model: &Program, h_err: ErrTy, id: &str) -> ErrRepr {
    let generic = format!("Generic error: fail:{id}");
    match (model.contract.error, h_err) {
        (ErrTy::Std, _) => ErrRepr { class: ErrClass::Std, text: generic },
        (ErrTy::Custom, ErrTy::Custom) => ErrRepr { class: ErrClass::CErrCustom, text: id.to_string() },
        (ErrTy::Custom, ErrTy::Std) => ErrRepr { class: ErrClass::CErrStd, text: generic },
    }
}

/// Check one call outcome against the model: exactly handler `h` ran, once, with `args`,
/// seeing the harness' environment, and the caller got the handler's own outcome.
pub fn check_call(
    model: &Program,
    h: &HandlerView,
    args: &[Value],
    case: &EnvCase,
    harness: &Harness,
    out: &CallOut,
    via: &str,
) -> Result<(), Bad> {
    let k = |s: &str| format!("{s}:{}:{via}", h.kind.attr());
    if out.log.len() != 1 || out.log[0].id != h.id {
        return Err(viol(
            k("wrong-handler"),
            "dispatch did not run exactly the annotated handler once",
            json!({"expected": h.id, "ran": out.log.iter().map(|r| r.id.clone()).collect::<Vec<_>>(), "via": via}),
        ));
    }
    let rec: &CallRec = &out.log[0];
    let want_args = body_of(h, args);
    if rec.args != want_args {
        return Err(viol(k("args"), "handler received different argument values", json!({"handler": h.id, "sent": want_args, "received": rec.args, "via": via})));
    }
    if rec.env != serde_json::to_value(&harness.env).unwrap() {
        return Err(viol(k("env"), "handler saw a different environment", json!({"handler": h.id, "sent": harness.env, "received": rec.env, "via": via})));
    }
    let want_info = if h.kind.has_info() { serde_json::to_value(&harness.info).unwrap() } else { Value::Null };
    if rec.info != want_info {
        return Err(viol(k("info"), "handler saw different sender / funds", json!({"handler": h.id, "sent": want_info, "received": rec.info, "via": via})));
    }
    if rec.sentinel.as_deref() != Some(harness.expected_sentinel().as_str()) {
        return Err(viol(k("storage"), "handler did not read the caller's storage", json!({"handler": h.id, "sentinel": rec.sentinel, "via": via})));
    }
    if rec.api_probe != harness.expected_api_probe() {
        return Err(viol(k("api"), "handler did not get the caller's api", json!({"handler": h.id, "probe": rec.api_probe, "via": via})));
    }
    if rec.querier_probe != harness.expected_querier_probe() {
        return Err(viol(k("querier"), "handler did not get the caller's querier", json!({"handler": h.id, "probe": rec.querier_probe, "via": via})));
    }
    if h.kind != Kind::Query {
        let touched = harness.storage.get(K_TOUCHED);
        if touched.as_deref() != Some(h.id.as_bytes()) {
            return Err(viol(k("storage"), "handler's write did not reach the caller's storage", json!({"handler": h.id, "via": via})));
        }
    }
    match (&out.result, case.fail) {
        (Ok(ok), false) => {
            let returned = rec.returned.get("ok").cloned().unwrap_or(Value::Null);
            let got = match ok {
                OkRepr::Response(v) => v.clone(),
                OkRepr::Binary(b) => match serde_json::from_slice::<Value>(b) {
                    Ok(v) => v,
                    Err(e) => return Err(viol(k("query-json"), "query result is not JSON", json!({"handler": h.id, "error": e.to_string()}))),
                },
            };
            if got != returned {
                return Err(viol(k("outcome"), "caller did not get the handler's own result", json!({"handler": h.id, "handler_returned": returned, "caller_got": got, "via": via})));
            }
        }
        (Err(e), true) => {
            let h_err = if h.err == ErrTy::Custom && model.contract.error == ErrTy::Custom { ErrTy::Custom } else { ErrTy::Std };
            let want = expected_err(model, h_err, &h.id);
            if *e != want {
                return Err(viol(k("error"), "handler error was not converted into the contract's error type", json!({"handler": h.id, "expected": format!("{want:?}"), "got": format!("{e:?}"), "via": via})));
            }
        }
        (r, fail) => {
            return Err(viol(k("outcome"), "caller got Ok/Err opposite to the handler's outcome", json!({"handler": h.id, "handler_failed": fail, "caller": format!("{r:?}"), "via": via})));
        }
    }
    Ok(())
}

pub fn run(p: &Prog, cfg: &Cfg, rep: &mut Report) {
    let handlers = p.model.handlers();
    for h in &handlers {
        let same_typed = h.conc.iter().enumerate().any(|(i, t)| h.conc[..i].contains(t));
        let sibling = handlers.iter().any(|o| o.id != h.id && o.part == h.part && o.kind == h.kind && o.conc == h.conc);
        let ops = &p.parts[h.part][&h.kind];
        let ok = run_cases(
            cfg,
            &p.model.id,
            &h.id,
            (args_strategy(&h.conc), env_strategy_with_resp()).boxed(),
            rep,
            |(args, case), tally| {
                if let Some(r) = &case.resp {
                    if h.kind != Kind::Query {
                        tally.class(if r.msgs.is_empty() { "response:no-sub-messages" } else { "response:with-sub-messages" });
                    }
                }
                tally.class(&format!("kind:{}", h.kind.attr()));
                tally.class(if h.part == 0 { "part:contract" } else { "part:interface" });
                if same_typed {
                    tally.class("same-typed-args");
                }
                if sibling {
                    tally.class("same-signature-sibling");
                }
                tally.class(if case.fail { "outcome:err" } else { "outcome:ok" });
                if same_typed || sibling || case.fail {
                    tally.nontrivial(&(&p.model.id, &h.id, serde_json::to_string(args).unwrap(), case.fail, case.nonce));
                }
                tally.sample(|| json!({"program": p.model.id, "handler": h.id, "args": args, "env": case.json()}));
                // part-level dispatch
                let built = (p.builders[&h.id])(args)?;
                let mut harness = case.harness();
                let out = ops.dispatch(built.lit, &mut harness);
                check_call(&p.model, h, args, case, &harness, &out, "part")?;
                // contract-level wrapper
                if h.kind.is_enum() {
                    let wrapped = (p.wraps[&(h.part, h.kind)])(built.ctor);
                    let mut harness = case.harness();
                    let out = p.wrappers[&h.kind].dispatch(wrapped, &mut harness);
                    check_call(&p.model, h, args, case, &harness, &out, "wrapper")?;
                    // ... and the way a message really arrives: the part's own JSON decoded as the
                    // contract-level message, then dispatched
                    let text = ops.to_json(&*(p.builders[&h.id])(args)?.lit).map_err(|e| Bad::Harness(format!("HARNESS: {e}")))?;
                    let w = p.wrappers[&h.kind].from_json(text.as_bytes()).map_err(|e| {
                        viol(format!("wrapper-json:{}", h.kind.attr()), "the contract-level message does not decode the JSON of the message its part serialises", json!({"handler": h.id, "json": text, "error": e}))
                    })?;
                    let mut harness = case.harness();
                    let out = p.wrappers[&h.kind].dispatch(w, &mut harness);
                    check_call(&p.model, h, args, case, &harness, &out, "wrapper-json")?;
                }
                Ok(())
            },
        );
        if !ok {
            return;
        }
    }
}
