//! C03 -- the contract-level message accepts exactly the union of its parts and routes right.

use super::docs::*;
use super::*;
use crate::harness::Harness;
use svmodel::Kind;

fn name_class(name: &str) -> &'static str {
    if name.chars().any(|c| c.is_ascii_digit()) {
        "digit-name"
    } else if name.starts_with('_') || name.contains("__") {
        "underscore-name"
    } else {
        "plain-name"
    }
}

pub fn run(p: &Prog, cfg: &Cfg, rep: &mut Report) {
    let handlers = p.model.handlers();
    let names = match observed_names(p, cfg, &handlers) {
        Ok(n) => n,
        Err(bad) => {
            fail_fixed(rep, cfg, &p.model.id, "observed-names", json!(null), bad);
            return;
        }
    };
    for kind in Kind::ENUMS {
        let Some(strat) = doc_strategy(&handlers, kind, &names) else {
            // no part declares a message of this kind: the contract-level message still exists
            // and must refuse every document with a decoding error (never panic)
            if let Some(wrapper) = p.wrappers.get(&kind) {
                for text in ["{\"anything\":{}}", "{\"a\":1}", "{}", "{\"a\":{},\"b\":{}}", "[]", "null", "\"x\"", "{\"\":{}}"] {
                    rep.evaluations += 1;
                    rep.class("doc:kind-without-messages");
                    rep.nontrivial(&(&p.model.id, kind, text));
                    let w = std::panic::catch_unwind(std::panic::AssertUnwindSafe(|| wrapper.from_json(text.as_bytes())));
                    let bad = match w {
                        Err(_) => Some(viol("panic:kind-without-messages", "decoding the contract-level message panicked", json!({"doc": text, "kind": kind.attr()}))),
                        Ok(Ok(_)) => Some(viol("wrapper-accepts:kind-without-messages", "a contract-level message without any variant accepted a document", json!({"doc": text, "kind": kind.attr()}))),
                        Ok(Err(_)) => None,
                    };
                    if let Some(bad) = bad {
                        if !fail_fixed(rep, cfg, &p.model.id, &format!("docs:{}", kind.attr()), json!({"text": text}), bad) {
                            return;
                        }
                    }
                }
            }
            continue;
        };
        let wrapper = &p.wrappers[&kind];
        // every name some part accepts for this kind
        let supported: Vec<String> = handlers.iter().filter(|h| h.kind == kind).map(|h| names[&h.id].clone()).collect();
        let ok = run_cases(cfg, &p.model.id, &format!("docs:{}", kind.attr()), strat, rep, |doc: &Doc, tally| {
            let origin = handlers.iter().find(|h| h.id == doc.origin).expect("origin handler");
            let ncls = name_class(&origin.name);
            tally.class(&format!("doc:{}", doc.class));
            tally.class(&format!("name:{ncls}"));
            tally.class(&format!("interfaces:{}", p.model.interfaces.len()));
            tally.class(if origin.part == 0 { "owner:contract" } else { "owner:interface" });
            if doc.class != "valid" || ncls != "plain-name" {
                tally.nontrivial(&(&p.model.id, kind, &doc.text));
            }
            tally.sample(|| json!({"program": p.model.id, "kind": kind.attr(), "doc": doc.to_json()}));
            let bytes = doc.text.as_bytes();
            // which parts accept?
            let mut accepting = vec![];
            for part in 0..p.model.parts() {
                if let Some(ops) = p.parts[part].get(&kind) {
                    if let Ok(m) = ops.from_json(bytes) {
                        accepting.push((part, m));
                    }
                }
            }
            let w = std::panic::catch_unwind(std::panic::AssertUnwindSafe(|| wrapper.from_json(bytes)));
            let w = match w {
                Ok(w) => w,
                Err(_) => return Err(viol(format!("panic:{}", doc.class), "decoding the contract-level message panicked", json!({"doc": doc.text}))),
            };
            let key_sfx = if doc.class == "extra-field-number" { doc.class.clone() } else { format!("{}:{}", doc.class, ncls) };
            match (accepting.len(), w) {
                (1, Ok(wv)) => {
                    let (part, pv) = accepting.pop().unwrap();
                    let pops = &p.parts[part][&kind];
                    let expected = (p.wraps[&(part, kind)])(pops.dup(&*pv));
                    if !wrapper.eq(&*wv, &*expected) {
                        return Err(viol(format!("route-value:{key_sfx}"), "contract-level message decodes to a different value than the owning part", json!({"doc": doc.text, "wrapper": wrapper.debug(&*wv), "part": pops.debug(&*pv)})));
                    }
                    let wj = wrapper.to_json(&*wv).map_err(|e| viol(format!("reencode:{key_sfx}"), "wrapper does not serialise", json!({"error": e})))?;
                    let pj = pops.to_json(&*pv).map_err(|e| viol(format!("reencode:{key_sfx}"), "part does not serialise", json!({"error": e})))?;
                    if wj != pj {
                        return Err(viol(format!("reencode:{key_sfx}"), "wrapper encodes to different JSON than the part alone", json!({"doc": doc.text, "wrapper": wj, "part": pj})));
                    }
                    // same handler reached
                    let mut h1 = Harness::new(1);
                    let o1 = pops.dispatch(pv, &mut h1);
                    let mut h2 = Harness::new(1);
                    let o2 = wrapper.dispatch(wv, &mut h2);
                    let ids1: Vec<&str> = o1.log.iter().map(|r| r.id.as_str()).collect();
                    let ids2: Vec<&str> = o2.log.iter().map(|r| r.id.as_str()).collect();
                    if ids1 != ids2 {
                        return Err(viol(format!("route-handler:{key_sfx}"), "wrapper reaches a different handler than the owning part", json!({"doc": doc.text, "part_ran": ids1, "wrapper_ran": ids2})));
                    }
                    tally.class("outcome:accepted");
                    Ok(())
                }
                (1, Err(e)) => Err(viol(
                    format!("wrapper-rejects:{key_sfx}"),
                    "a document accepted by exactly one part is rejected by the contract-level message",
                    json!({"doc": doc.text, "accepting_part": p.model.part_name(accepting[0].0), "error": e}),
                )),
                (n, Ok(wv)) => Err(viol(
                    format!("wrapper-accepts:{}", doc.class),
                    "contract-level message accepts a document that not exactly one part accepts",
                    json!({"doc": doc.text, "accepting_parts": n, "wrapper": wrapper.debug(&*wv)}),
                )),
                (0, Err(e)) => {
                    tally.class("outcome:rejected");
                    // unknown top-level name => the error lists the supported messages
                    if let Ok(Value::Object(o)) = serde_json::from_str::<Value>(&doc.text) {
                        if o.len() == 1 {
                            let k = o.keys().next().unwrap();
                            if !supported.contains(k) && !doc.class.starts_with("dup") {
                                for s in &supported {
                                    if !e.contains(s.as_str()) {
                                        return Err(viol(
                                            format!("errlist:{}", name_class(s)),
                                            "error for an unknown message name does not list a supported message",
                                            json!({"doc": doc.text, "missing": s, "error": e}),
                                        ));
                                    }
                                }
                                tally.class("errlist-checked");
                            }
                        }
                    }
                    Ok(())
                }
                (_, Err(_)) => {
                    tally.class("outcome:rejected-ambiguous");
                    Ok(())
                }
            }
        });
        if !ok {
            return;
        }
    }
}
