//! C04 -- handlers are reachable only through the entry point of their own kind.

use super::c01::doc_of;
use super::docs::observed_names;
use super::*;
use crate::harness::Harness;
use proptest::prelude::*;
use svmodel::Kind;

const KINDS: [Kind; 6] = [Kind::Instantiate, Kind::Exec, Kind::Query, Kind::Sudo, Kind::Migrate, Kind::Reply];

pub fn kind_of_id(id: &str) -> &str {
    id.split("::").nth(1).unwrap_or("")
}

pub fn run(p: &Prog, cfg: &Cfg, rep: &mut Report) {
    let handlers = p.model.handlers();
    let names = match observed_names(p, cfg, &handlers) {
        Ok(n) => n,
        Err(bad) => {
            fail_fixed(rep, cfg, &p.model.id, "observed-names", json!(null), bad);
            return;
        }
    };
    for h in &handlers {
        let k1 = h.kind;
        let name = names.get(&h.id).cloned().unwrap_or(h.name.clone());
        let ok = run_cases(
            cfg,
            &p.model.id,
            &h.id,
            (args_strategy(&h.conc), 0usize..KINDS.len(), any::<bool>()).prop_map(|(a, k, mt)| (a, json!({"k2": k, "mt": mt}))).boxed(),
            rep,
            |(args, sel): &(Vec<Value>, Value), tally| {
                let mut k2 = KINDS[sel["k2"].as_u64().unwrap() as usize];
                if k2 == k1 {
                    k2 = KINDS[(sel["k2"].as_u64().unwrap() as usize + 1) % KINDS.len()];
                }
                if k2 == k1 {
                    return Ok(());
                }
                let via_mt = sel["mt"].as_bool().unwrap();
                let table = if via_mt { &p.mt_entries } else { &p.entries };
                let Some(entry) = table.get(&k2) else {
                    tally.class("no-such-entry-point");
                    return Ok(());
                };
                let doc = doc_of(h, &name, args);
                let text = doc.to_string();
                let mut harness = Harness::new(3);
                tally.class(&format!("pair:{}->{}", k1.attr(), k2.attr()));
                tally.class(if via_mt { "via:multitest" } else { "via:entry-point" });
                match entry(&mut harness, text.as_bytes()) {
                    Err(_) => {
                        tally.class("outcome:decode-error");
                        Ok(())
                    }
                    Ok(out) => {
                        if let Some(bad) = out.log.iter().find(|r| kind_of_id(&r.id) != k2.attr()) {
                            return Err(viol(
                                format!("cross-kind:{}->{}", k1.attr(), k2.attr()),
                                "a handler ran for a message that arrived at the entry point of another kind",
                                json!({"doc": doc, "sent_to": k2.ep(), "ran": bad.id, "via": if via_mt {"multitest"} else {"entry_points"}}),
                            ));
                        }
                        if out.log.is_empty() {
                            tally.class("outcome:rejected-no-handler");
                        } else {
                            tally.class("outcome:accepted-own-kind");
                            tally.nontrivial(&(&p.model.id, &h.id, k2, &text));
                        }
                        tally.sample(|| json!({"program": p.model.id, "from": h.id, "to": k2.ep(), "doc": doc, "ran": out.log.iter().map(|r| r.id.clone()).collect::<Vec<_>>()}));
                        Ok(())
                    }
                }
            },
        );
        if !ok {
            return;
        }
    }
    // documents shaped like the message of an overridden entry point, sent to every entry point:
    // whatever runs must belong to the entry point that was addressed
    if !p.model.contract.overrides.is_empty() {
        let strat = ("[a-z]{0,6}", 0usize..KINDS.len(), any::<bool>()).prop_map(|(t, k, mt)| json!({"tag": t, "k2": k, "mt": mt})).boxed();
        run_cases(cfg, &p.model.id, "override-docs", strat, rep, |sel: &Value, tally| {
            let k2 = KINDS[sel["k2"].as_u64().unwrap() as usize];
            let via_mt = sel["mt"].as_bool().unwrap();
            let table = if via_mt { &p.mt_entries } else { &p.entries };
            let Some(entry) = table.get(&k2) else { return Ok(()) };
            let doc = json!({"tag": sel["tag"]});
            tally.class(&format!("pair:override-message->{}", k2.attr()));
            let mut harness = Harness::new(7);
            match entry(&mut harness, doc.to_string().as_bytes()) {
                Err(_) => Ok(()),
                Ok(out) => {
                    if let Some(bad) = out.log.iter().find(|r| kind_of_id(&r.id) != k2.attr()) {
                        return Err(viol(
                            format!("cross-kind:override->{}", k2.attr()),
                            "a handler ran for a message that arrived at the entry point of another kind",
                            json!({"doc": doc, "sent_to": k2.ep(), "ran": bad.id, "overridden": p.model.contract.overrides, "via": if via_mt {"multitest"} else {"entry_points"}}),
                        ));
                    }
                    if !out.log.is_empty() {
                        tally.nontrivial(&(&p.model.id, "override-doc", k2, via_mt));
                    }
                    Ok(())
                }
            }
        });
    }
    // Reply documents sent to the other entry points
    if p.entries.contains_key(&Kind::Reply) || p.mt_entries.contains_key(&Kind::Reply) {
        let strat = (0usize..5, any::<bool>(), any::<u64>(), any::<bool>(), "[ -~]{0,10}")
            .prop_map(|(k, mt, id, ok, text)| json!({"k2": k, "mt": mt, "id": id % 4, "ok": ok, "text": text}))
            .boxed();
        run_cases(cfg, &p.model.id, "reply-docs", strat, rep, |sel: &Value, tally| {
            let k2 = KINDS[sel["k2"].as_u64().unwrap() as usize];
            let via_mt = sel["mt"].as_bool().unwrap();
            let table = if via_mt { &p.mt_entries } else { &p.entries };
            let Some(entry) = table.get(&k2) else { return Ok(()) };
            let result = if sel["ok"].as_bool().unwrap() { json!({"ok": {"events": [], "data": null, "msg_responses": []}}) } else { json!({"error": sel["text"]}) };
            let doc = json!({"id": sel["id"], "payload": "", "gas_used": 7, "result": result});
            tally.class(&format!("pair:reply->{}", k2.attr()));
            let mut harness = Harness::new(5);
            match entry(&mut harness, doc.to_string().as_bytes()) {
                Err(_) => Ok(()),
                Ok(out) => {
                    if let Some(bad) = out.log.iter().find(|r| kind_of_id(&r.id) != k2.attr()) {
                        return Err(viol(format!("cross-kind:reply->{}", k2.attr()), "a handler ran for a message that arrived at the entry point of another kind", json!({"doc": doc, "sent_to": k2.ep(), "ran": bad.id})));
                    }
                    if !out.log.is_empty() {
                        tally.nontrivial(&(&p.model.id, "reply", k2, doc.to_string()));
                    }
                    Ok(())
                }
            }
        });
    }
}
