//! C05(c) -- the name list each part publishes is sorted and is exactly the set of names
//! its messages serialise under.

use super::docs::observed_names;
use super::*;
use svmodel::Kind;

pub fn run(p: &Prog, cfg: &Cfg, rep: &mut Report) {
    if cfg.replay_case.is_some() && cfg.replay_case.as_ref().unwrap()["salt"] != "name-lists" {
        return;
    }
    let handlers = p.model.handlers();
    let names = match observed_names(p, cfg, &handlers) {
        Ok(n) => n,
        Err(bad) => {
            fail_fixed(rep, cfg, &p.model.id, "name-lists", json!(null), bad);
            return;
        }
    };
    for part in 0..p.model.parts() {
        for kind in Kind::ENUMS {
            let Some(ops) = p.parts[part].get(&kind) else { continue };
            let Some(list) = ops.names() else { continue };
            rep.evaluations += 1;
            let mut observed: Vec<String> = handlers.iter().filter(|h| h.part == part && h.kind == kind).map(|h| names[&h.id].clone()).collect();
            observed.sort();
            let digit = observed.iter().any(|n| n.chars().any(|c| c.is_ascii_digit()));
            rep.class(&format!("list-len:{}", list.len().min(4)));
            if list.len() >= 2 || digit {
                rep.nontrivial(&(&p.model.id, part, kind, &list));
            }
            rep.sample(json!({"program": p.model.id, "part": p.model.part_name(part), "kind": kind.attr(), "published": list, "serialised": observed}));
            let case = json!({"part": p.model.part_name(part), "kind": kind.attr()});
            if !list.windows(2).all(|w| w[0] < w[1]) {
                let bad = viol("list-unsorted", "published message-name list is not strictly ascending", json!({"part": p.model.part_name(part), "kind": kind.attr(), "published": list}));
                if !fail_fixed(rep, cfg, &p.model.id, "name-lists", case.clone(), bad) {
                    return;
                }
            }
            let mut sorted_list = list.clone();
            sorted_list.sort();
            if sorted_list != observed {
                let cls = if digit { "digit-name" } else { "plain" };
                let bad = viol(format!("list-mismatch:{cls}"), "published message-name list differs from the names the messages serialise under", json!({"part": p.model.part_name(part), "kind": kind.attr(), "published": list, "serialised": observed}));
                if !fail_fixed(rep, cfg, &p.model.id, "name-lists", case, bad) {
                    return;
                }
            }
        }
    }
}
