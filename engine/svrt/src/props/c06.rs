//! C06(b) -- every emitted entry point builds the contract, dispatches the decoded message with
//! the given deps / env / info and returns the dispatch outcome with the contract's error
//! type; overridden kinds are routed to the user's function by the multitest `Contract` impl.

use super::c01::doc_of;
use super::c02::{check_call, env_strategy, EnvCase};
use super::docs::observed_names;
use super::*;
use crate::harness::Harness;
use svmodel::Kind;

pub fn run(p: &Prog, cfg: &Cfg, rep: &mut Report) {
    let handlers = p.model.handlers();
    let names = match observed_names(p, cfg, &handlers) {
        Ok(n) => n,
        Err(bad) => {
            fail_fixed(rep, cfg, &p.model.id, "observed-names", json!(null), bad);
            return;
        }
    };
    let overridden = &p.model.contract.overrides;
    for h in &handlers {
        if overridden.contains(&h.kind) {
            continue;
        }
        let name = names.get(&h.id).cloned().unwrap_or(h.name.clone());
        let ok = run_cases(
            cfg,
            &p.model.id,
            &h.id,
            (args_strategy(&h.conc), super::c02::env_strategy_with_resp(), proptest::bool::ANY).prop_map(|(a, e, mt)| (a, e, json!(mt))).boxed(),
            rep,
            |(args, case, via_mt): &(Vec<Value>, EnvCase, Value), tally| {
                let via_mt = via_mt.as_bool().unwrap_or(false);
                let table = if via_mt { &p.mt_entries } else { &p.entries };
                let Some(entry) = table.get(&h.kind) else {
                    return Err(viol(format!("entry-missing:{}", h.kind.attr()), "no entry point for a defined, non-overridden kind", json!({"kind": h.kind.attr()})));
                };
                tally.class(&format!("kind:{}", h.kind.attr()));
                tally.class(if via_mt { "via:multitest-contract-impl" } else { "via:entry-point" });
                tally.class(if case.fail { "outcome:err" } else { "outcome:ok" });
                if !overridden.is_empty() || matches!(h.kind, Kind::Migrate) || case.fail {
                    tally.nontrivial(&(&p.model.id, &h.id, serde_json::to_string(args).unwrap(), case.nonce, via_mt));
                }
                tally.sample(|| json!({"program": p.model.id, "handler": h.id, "overridden_kinds": overridden, "via_multitest": via_mt}));
                let doc = doc_of(h, &name, args);
                let mut harness = case.harness();
                let out = entry(&mut harness, doc.to_string().as_bytes()).map_err(|e| viol(format!("entry-rejects:{}", h.kind.attr()), "entry point rejects a well-formed message of its kind", json!({"doc": doc, "error": e})))?;
                if via_mt && case.fail {
                    // anyhow-wrapped on the multitest side: class and text are still those of the contract error
                }
                check_call(&p.model, h, args, case, &harness, &out, if via_mt { "multitest" } else { "entry-point" })
            },
        );
        if !ok {
            return;
        }
    }
    // overridden kinds: absent from the entry_points module (not registered by the glue, which
    // only compiles when the function does not exist is not checkable here; E1 checks the set),
    // and routed to the user's function by the multitest Contract impl
    for k in overridden {
        if *k == Kind::Reply {
            continue;
        }
        rep.evaluations += 1;
        rep.class(&format!("override:{}", k.attr()));
        rep.nontrivial(&(&p.model.id, "override", k));
        if p.entries.contains_key(k) {
            let bad = viol(format!("override-still-generated:{}", k.attr()), "an entry point exists for an overridden kind", json!({"kind": k.attr()}));
            if !fail_fixed(rep, cfg, &p.model.id, "overrides", json!({"kind": k.attr()}), bad) {
                return;
            }
        }
        if let Some(entry) = p.mt_entries.get(k) {
            let mut harness = Harness::new(11);
            let r = entry(&mut harness, br#"{"tag":"t"}"#);
            let ran: Vec<String> = r.as_ref().map(|o| o.log.iter().map(|r| r.id.clone()).collect()).unwrap_or_default();
            if ran != vec![format!("override::{}", k.attr())] {
                let bad = viol(format!("override-not-used:{}", k.attr()), "the multitest Contract impl does not route an overridden kind to the user's entry point", json!({"kind": k.attr(), "ran": ran, "result": format!("{:?}", r.map(|o| o.result))}));
                if !fail_fixed(rep, cfg, &p.model.id, "overrides", json!({"kind": k.attr()}), bad) {
                    return;
                }
            }
        }
    }
    // legacy reply handlers: entry point and multitest impl hand the raw Reply to the same handler
    if !p.model.contract.replies {
        if let (Some(e), Some(m)) = (p.entries.get(&Kind::Reply), p.mt_entries.get(&Kind::Reply)) {
            let doc = json!({"id": 3, "payload": "", "gas_used": 1, "result": {"ok": {"events": [], "data": null, "msg_responses": []}}});
            let mut h1 = Harness::new(13);
            let mut h2 = Harness::new(13);
            let a = e(&mut h1, doc.to_string().as_bytes());
            let b = m(&mut h2, doc.to_string().as_bytes());
            rep.evaluations += 1;
            rep.class("legacy-reply");
            rep.nontrivial(&(&p.model.id, "legacy-reply"));
            let ids = |r: &Result<crate::harness::CallOut, String>| r.as_ref().map(|o| o.log.iter().map(|r| r.id.clone()).collect::<Vec<_>>()).unwrap_or_default();
            let (ia, ib) = (ids(&a), ids(&b));
            let declared: Vec<String> = p.model.reply_methods().iter().map(|m| m.id.clone()).collect();
            if ia.len() != 1 || ia != ib || !declared.contains(&ia[0]) {
                let bad = viol("legacy-reply-routing", "the reply entry point and the multitest Contract impl do not hand the reply to the same single reply handler", json!({"entry_point_ran": ia, "multitest_ran": ib, "declared": declared}));
                if !fail_fixed(rep, cfg, &p.model.id, "legacy-reply", doc, bad) {
                    return;
                }
            }
        }
    }
}
