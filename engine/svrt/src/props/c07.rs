//! C07 -- reply routing honours the declared handler and outcome.

use super::reply::*;
use super::*;
use crate::ops::ReplyIds;
use svmodel::ReplyOn;

pub fn run(p: &Prog, cfg: &Cfg, rep: &mut Report) {
    let rows = p.model.reply_table();
    let methods = p.model.reply_methods();
    if rows.is_empty() {
        return;
    }
    let Some(ids) = p.extra::<ReplyIds>("reply_ids") else {
        rep.harness_errors.push("no reply ids".into());
        return;
    };
    // mostly well-formed data, 12% unknown ids, 10% invalid payloads
    let strat = (reply_case_strategy(&p.model, 12, 12, 10), 0u8..3).prop_map(|(c, e)| (c, json!(e))).boxed();
    run_cases(cfg, &p.model.id, "replies", strat, rep, |(case, via): &(ReplyCase, Value), tally| {
        // older replay files stored a bool here (false = dispatch_reply, true = entry point)
        let via = via.as_u64().map(|v| v as u8).unwrap_or(via.as_bool().unwrap_or(false) as u8);
        let via = if via == 2 && !p.mt_entries.contains_key(&svmodel::Kind::Reply) { 1 } else { via };
        let exp = run_reply_case(p, &rows, &methods, ids, case, "route", via)?;
        tally.class(if case.ok { "result:ok" } else { "result:err" });
        tally.class(["via:dispatch_reply", "via:entry-point", "via:multitest-contract-impl"][via.min(2) as usize]);
        let cls = match &exp {
            Expect::ErrNoHandler => "expect:rejected",
            Expect::ErrExact(_) => "expect:uncovered-failure-forwarded",
            Expect::PassThroughOk => "expect:uncovered-success-passed-through",
            Expect::Ran { .. } => "expect:handler-runs",
            Expect::Either(..) => "expect:unspecified-cell",
        };
        tally.class(cls);
        if case.row >= rows.len() {
            tally.class("id:unknown");
        } else {
            let row = &rows[case.row];
            let always = method_of(&methods, &row.ok).map(|m| m.spec.on == ReplyOn::Always).unwrap_or(false);
            let uncovered = matches!(exp, Expect::ErrExact(_) | Expect::PassThroughOk);
            if always {
                tally.class("row:always");
            }
            if row.ok.is_some() && row.err.is_some() && !always {
                tally.class("row:both-via-two-methods");
            }
            if uncovered || always {
                tally.nontrivial(&(&p.model.id, case.to_json().to_string()));
            }
        }
        if case.garbage_payload.is_some() {
            tally.class("payload:garbage");
        }
        tally.sample(|| json!({"program": p.model.id, "table": rows, "reply": case.to_json(), "expected": format!("{exp:?}")}));
        Ok(())
    });
}
