//! C08 -- sub-message builders and reply dispatch agree on id, trigger and payload.

use super::c02::env_strategy;
use super::reply::*;
use super::*;
use crate::echo::SubSpec;
use crate::ops::{Recv, ReplyIds, SubMsgHelper};
use proptest::prelude::*;
use svmodel::{Payload, ReplyOn};

fn spec_strategy(wasm_only: bool) -> BoxedStrategy<SubSpec> {
    let kinds: Vec<&'static str> = if wasm_only {
        vec!["wasm_exec", "wasm_inst", "wasm_inst2", "wasm_migrate", "wasm_update_admin", "wasm_clear_admin"]
    } else {
        vec!["bank_send", "bank_burn", "wasm_exec", "wasm_inst", "staking", "distribution", "stargate", "ibc", "gov", "custom"]
    };
    (0..kinds.len(), u64_edges(), proptest::option::of(u64_edges()), 0u8..4, proptest::collection::vec(any::<u8>(), 0..12), any::<u32>(), "[a-z0-9]{1,12}")
        .prop_map(move |(k, id, gas_limit, reply_on, payload, n, text)| SubSpec { kind: kinds[k].to_string(), id, gas_limit, reply_on, payload, n, text })
        .boxed()
}

pub fn run(p: &Prog, cfg: &Cfg, rep: &mut Report) {
    let rows = p.model.reply_table();
    let methods = p.model.reply_methods();
    let Some(ids) = p.extra::<ReplyIds>("reply_ids") else { return };
    // distinct names => distinct ids
    rep.evaluations += 1;
    for (i, a) in ids.0.iter().enumerate() {
        for b in &ids.0[i + 1..] {
            if a.1 == b.1 {
                let bad = viol("ids-collide", "two distinct reply handler names share an id", json!({"a": a.0, "b": b.0, "id": a.1}));
                if !fail_fixed(rep, cfg, &p.model.id, "ids", json!({"a": a.0, "b": b.0}), bad) {
                    return;
                }
            }
        }
    }
    for (ri, row) in rows.iter().enumerate() {
        let Some(helper) = p.extra::<SubMsgHelper>(&format!("submsg:{}", row.name)) else {
            rep.harness_errors.push(format!("no submsg helper for {}", row.name));
            return;
        };
        let pm = row_payload(&methods, row).clone();
        let id = ids.0.iter().find(|(n, _)| *n == row.name).map(|(_, v)| *v).unwrap();
        // both, or an always method => always
        let want_on = match (row.ok.is_some(), row.err.is_some()) {
            (true, true) => "always",
            (true, false) => "success",
            (false, true) => "error",
            _ => unreachable!(),
        };
        let strat = (payload_args_strategy(&pm), 0u8..3, spec_strategy(false), spec_strategy(true), reply_case_strategy(&p.model, 12, 0, 0), env_strategy())
            .prop_map(|(a, r, s1, s2, rc, _e)| (a, json!({"recv": r, "spec": serde_json::to_value(&s1).unwrap(), "wspec": serde_json::to_value(&s2).unwrap()}), rc))
            .boxed();
        let ok = run_cases(cfg, &p.model.id, &format!("builder:{}", row.name), strat, rep, |(payload_args, sel, rc): &(Vec<Value>, Value, ReplyCase), tally| {
            let recv = sel["recv"].as_u64().unwrap();
            let spec: SubSpec = serde_json::from_value(if recv == 1 { sel["wspec"].clone() } else { sel["spec"].clone() }).unwrap();
            let c_is_empty = !p.model.contract.custom_msg;
            let _ = c_is_empty;
            let (label, r) = match recv {
                0 => ("submsg", (helper.0)(Recv::Sub(&spec), payload_args)),
                1 => ("wasmmsg", (helper.0)(Recv::Wasm(&spec), payload_args)),
                _ => ("cosmosmsg", (helper.0)(Recv::Cosmos(&spec), payload_args)),
            };
            tally.class(&format!("receiver:{label}"));
            tally.class(&format!("reply_on:{want_on}"));
            let typed_n = match &pm.spec.payload {
                Payload::Raw => 0,
                Payload::Typed(a) => a.len(),
            };
            tally.class(&format!("payload:{}", if typed_n == 0 { "raw".to_string() } else { format!("typed{typed_n}") }));
            let raw_non_utf8 = typed_n == 0 && std::str::from_utf8(&unb64(payload_args[0].as_str().unwrap_or(""))).is_err();
            if typed_n >= 2 || raw_non_utf8 {
                tally.nontrivial(&(&p.model.id, &row.name, serde_json::to_string(payload_args).unwrap(), recv));
            }
            tally.sample(|| json!({"program": p.model.id, "handler": row.name, "receiver": label, "payload_args": payload_args, "spec": spec}));
            let sub = r.map_err(|e| viol(format!("builder-fails:{label}"), "sub-message builder fails", json!({"handler": row.name, "error": e})))?;
            if sub["id"] != json!(id) {
                return Err(viol(format!("builder-id:{label}"), "builder does not stamp the handler's reply id", json!({"handler": row.name, "expected": id, "got": sub["id"]})));
            }
            if sub["reply_on"] != json!(want_on) {
                return Err(viol(format!("builder-reply-on:{label}"), "builder requests a reply for other outcomes than those that have a method", json!({"handler": row.name, "expected": want_on, "got": sub["reply_on"]})));
            }
            // wrapped message and gas limit
            let (want_msg, want_gas) = if p.model.contract.custom_msg {
                let m = match recv {
                    1 => serde_json::to_value(sylvia::cw_std::CosmosMsg::<crate::types::MyMsg>::Wasm(crate::echo::wasm_msg_of(&spec))).unwrap(),
                    _ => serde_json::to_value(crate::echo::cosmos_msg_of::<crate::types::MyMsg>(&spec)).unwrap(),
                };
                (m, if recv == 0 { json!(spec.gas_limit) } else { Value::Null })
            } else {
                let m = match recv {
                    1 => serde_json::to_value(sylvia::cw_std::CosmosMsg::<sylvia::cw_std::Empty>::Wasm(crate::echo::wasm_msg_of(&spec))).unwrap(),
                    _ => serde_json::to_value(crate::echo::cosmos_msg_of::<sylvia::cw_std::Empty>(&spec)).unwrap(),
                };
                (m, if recv == 0 { json!(spec.gas_limit) } else { Value::Null })
            };
            if sub["msg"] != want_msg {
                return Err(viol(format!("builder-msg:{label}"), "builder does not keep the wrapped message intact", json!({"handler": row.name, "expected": want_msg, "got": sub["msg"]})));
            }
            if sub["gas_limit"] != want_gas {
                return Err(viol(format!("builder-gas:{label}"), "builder does not keep the gas limit (existing sub-message) / sets one (plain message)", json!({"handler": row.name, "expected": want_gas, "got": sub["gas_limit"]})));
            }
            // raw payload byte for byte
            let payload_bytes = unb64(sub["payload"].as_str().unwrap_or(""));
            // (a name whose two methods mark the payload differently -- typed `Binary` / raw -- has no
            // single declared encoding: only the delivered value is checked for it, below)
            let mixed_markers = match (method_of(&methods, &row.ok), method_of(&methods, &row.err)) {
                (Some(a), Some(b)) => std::mem::discriminant(&a.spec.payload) != std::mem::discriminant(&b.spec.payload),
                _ => false,
            };
            if mixed_markers {
                tally.class("payload:mixed-markers");
            }
            if typed_n == 0 && !mixed_markers && payload_bytes != unb64(payload_args[0].as_str().unwrap_or("")) {
                return Err(viol("payload-raw", "raw payload is not carried byte for byte", json!({"handler": row.name})));
            }
            // dispatching the eventual reply delivers equal payload values
            let mut case = rc.clone();
            case.row = ri;
            case.garbage_payload = None;
            case.payload_args = payload_args.clone();
            case.ok = if row.ok.is_some() && row.err.is_some() { rc.ok } else { row.ok.is_some() };
            // C08 is about the payload: keep the data well-formed enough for the handler to run
            let okm = method_of(&methods, &row.ok);
            if case.ok && okm.map(|m| m.spec.on == ReplyOn::Success).unwrap_or(false) && rc.data_class != "well-formed" {
                return Ok(());
            }
            let exp = expected(&p.model, &rows, &methods, &case, true);
            let reply = sylvia::cw_std::Reply { id: sub["id"].as_u64().unwrap_or(u64::MAX), payload: sylvia::cw_std::Binary::from(payload_bytes), gas_used: case.gas_used, result: sub_result(&case) };
            let d = p.extra::<crate::ops::ReplyDispatch>("dispatch_reply").ok_or_else(|| Bad::Harness("HARNESS: no dispatch_reply".into()))?;
            let mut harness = case.env.harness();
            let out = (d.0)(&mut harness, reply);
            check_outcome(&p.model, &case, &harness, &out, &exp, "payload")?;
            tally.class("round-trip-through-dispatch");
            Ok(())
        });
        if !ok {
            return;
        }
    }
}
