//! C09 -- reply data is extracted according to the declared data mode.

use super::reply::*;
use super::*;
use crate::ops::ReplyIds;
use svmodel::{DataMode, ReplyOn};

pub fn run(p: &Prog, cfg: &Cfg, rep: &mut Report) {
    let rows = p.model.reply_table();
    let methods = p.model.reply_methods();
    let Some(ids) = p.extra::<ReplyIds>("reply_ids") else { return };
    // only rows whose success method is a `success` handler (data modes apply there)
    let interesting: Vec<usize> = rows
        .iter()
        .enumerate()
        .filter(|(_, r)| method_of(&methods, &r.ok).map(|m| m.spec.on == ReplyOn::Success).unwrap_or(false))
        .map(|(i, _)| i)
        .collect();
    if interesting.is_empty() {
        return;
    }
    // full data-class matrix: well-formed weight 3 against 9 for the other classes
    let strat = reply_case_strategy_rows(&p.model, 3, 0, 0, Some(interesting))
        .prop_map(move |mut c| {
            c.ok = true;
            c.garbage_payload = None;
            c
        })
        .boxed();
    run_cases(cfg, &p.model.id, "data", strat, rep, |case: &ReplyCase, tally| {
        let m = method_of(&methods, &rows[case.row].ok).unwrap();
        let exp = run_reply_case(p, &rows, &methods, ids, case, "data", 0)?;
        tally.class(&format!("mode:{:?}", m.spec.data));
        tally.class(&format!("data:{}", case.data_class));
        tally.class(&format!("type:{:?}", m.data_conc));
        match &exp {
            Expect::ErrNoHandler => tally.class("expect:error-no-handler"),
            Expect::Ran { .. } => tally.class("expect:delivered"),
            Expect::Either(..) => tally.class("expect:unspecified-cell(opt+empty-envelope)"),
            _ => {}
        }
        if m.spec.data != DataMode::Absent {
            tally.nontrivial(&(&p.model.id, case.row, &case.data, &case.data_class));
        }
        tally.sample(|| json!({"program": p.model.id, "mode": format!("{:?}", m.spec.data), "data_class": case.data_class, "data": case.data.as_ref().map(|d| b64(d)), "expected": format!("{exp:?}")}));
        Ok(())
    });
}
