//! C10 -- remote helpers build messages the target contract accepts and routes identically.

use super::c01::body_of;
use super::c02::{env_strategy, EnvCase};
use super::*;
use crate::harness::{Harness, OkRepr};
use crate::ops::{ExecHelper, InstHelper, QueryHelper};
use proptest::prelude::*;
use svmodel::Kind;
use sylvia::cw_std::{Binary, Coin, Uint128, WasmMsg};

fn coins(v: &[(String, u128)]) -> Vec<Coin> {
    v.iter().map(|(d, a)| Coin { denom: d.clone(), amount: Uint128::new(*a) }).collect()
}

#[derive(Clone, Debug)]
pub struct InstCase {
    pub code_id: u64,
    pub label: Option<String>,
    pub admin: Option<String>,
    pub funds: Option<Vec<(String, u128)>>,
    pub salt: Option<Vec<u8>>,
}

impl Case for InstCase {
    fn to_json(&self) -> Value {
        json!({"code_id": self.code_id, "label": self.label, "admin": self.admin,
            "funds": self.funds.as_ref().map(|f| f.iter().map(|(d, a)| json!([d, a.to_string()])).collect::<Vec<_>>()),
            "salt": self.salt})
    }
    fn from_json(v: &Value) -> Option<Self> {
        Some(InstCase {
            code_id: v["code_id"].as_u64()?,
            label: v["label"].as_str().map(|s| s.to_string()),
            admin: v["admin"].as_str().map(|s| s.to_string()),
            funds: match &v["funds"] {
                Value::Array(a) => Some(a.iter().map(|f| Some((f[0].as_str()?.to_string(), f[1].as_str()?.parse().ok()?))).collect::<Option<Vec<_>>>()?),
                _ => None,
            },
            salt: match &v["salt"] {
                Value::Array(a) => Some(a.iter().map(|b| b.as_u64().map(|b| b as u8)).collect::<Option<Vec<_>>>()?),
                _ => None,
            },
        })
    }
}

fn inst_strategy() -> BoxedStrategy<InstCase> {
    (
        u64_edges(),
        proptest::option::of(svmodel::json::string_strategy()),
        proptest::option::of("[a-z0-9]{0,12}"),
        proptest::option::of(proptest::collection::vec(("[a-z]{3,6}", any::<u128>()), 0..3)),
        proptest::option::of(proptest::collection::vec(any::<u8>(), 0..12)),
    )
        .prop_map(|(code_id, label, admin, funds, salt)| InstCase { code_id, label, admin, funds, salt })
        .boxed()
}

pub fn run(p: &Prog, cfg: &Cfg, rep: &mut Report) {
    let handlers = p.model.handlers();
    for h in handlers.iter().filter(|h| h.kind == Kind::Exec || h.kind == Kind::Query) {
        let labels: &[&str] = if h.part == 0 { &["ctr"] } else { &["ctr", "dyn"] };
        for label in labels {
            let salt = format!("{}:{}", h.id, label);
            let ok = if h.kind == Kind::Exec {
                let Some(helper) = p.extra::<ExecHelper>(&format!("exec:{}:{}", h.id, label)) else {
                    rep.harness_errors.push(format!("missing exec helper glue for {}", h.id));
                    return;
                };
                run_cases(
                    cfg,
                    &p.model.id,
                    &salt,
                    (args_strategy(&h.conc), super::c02::env_strategy_with_resp(), any::<bool>()).prop_map(|(a, e, f)| (a, e, json!(f))).boxed(),
                    rep,
                    |(args, case, with_funds): &(Vec<Value>, EnvCase, Value), tally| {
                        let with_funds = with_funds.as_bool().unwrap_or(false);
                        let funds = coins(&case.funds);
                        tally.class(&format!("exec:{label}"));
                        tally.class(if with_funds { "funds:set" } else { "funds:unset" });
                        if (!h.args.is_empty() && with_funds && !funds.is_empty()) || *label == "dyn" {
                            tally.nontrivial(&(&p.model.id, &salt, serde_json::to_string(args).unwrap(), &case.contract));
                        }
                        tally.sample(|| json!({"program": p.model.id, "helper": salt, "args": args, "addr": case.contract, "funds": case.funds.len()}));
                        let msg = (helper.0)(&case.contract, if with_funds { Some(funds.clone()) } else { None }, args)?;
                        let WasmMsg::Execute { contract_addr, msg: body, funds: got_funds } = msg else {
                            return Err(viol("exec-variant", "executor helper did not build a WasmMsg::Execute", json!({"helper": salt})));
                        };
                        if contract_addr != case.contract {
                            return Err(viol("exec-addr", "execute message is not addressed to the handle's address", json!({"helper": salt, "expected": case.contract, "got": contract_addr})));
                        }
                        let want_funds = if with_funds { funds.clone() } else { vec![] };
                        if got_funds != want_funds {
                            return Err(viol("exec-funds", "execute message does not carry the funds set on the builder", json!({"helper": salt, "expected": want_funds, "got": got_funds})));
                        }
                        // the target's execute entry point must route the body to the same method
                        let Some(entry) = p.entries.get(&Kind::Exec) else { return Ok(()) };
                        let mut target = case.harness();
                        target.set_fail(false);
                        let mut c2 = case.clone();
                        c2.fail = false;
                        match entry(&mut target, body.as_slice()) {
                            Err(e) => Err(viol("exec-body-rejected", "the target's execute entry point rejects the body built by the helper", json!({"helper": salt, "body": String::from_utf8_lossy(body.as_slice()), "error": e}))),
                            Ok(out) => super::c02::check_call(&p.model, h, args, &c2, &target, &out, "remote-exec"),
                        }
                    },
                )
            } else {
                let Some(helper) = p.extra::<QueryHelper>(&format!("query:{}:{}", h.id, label)) else {
                    rep.harness_errors.push(format!("missing query helper glue for {}", h.id));
                    return;
                };
                run_cases(
                    cfg,
                    &p.model.id,
                    &salt,
                    (args_strategy(&h.conc), env_strategy()).boxed(),
                    rep,
                    |(args, case): &(Vec<Value>, EnvCase), tally| {
                        tally.class(&format!("query:{label}"));
                        if !h.args.is_empty() || *label == "dyn" {
                            tally.nontrivial(&(&p.model.id, &salt, serde_json::to_string(args).unwrap(), &case.contract));
                        }
                        // step 1: no contract behind the address -> the helper issues the query and fails
                        let caller = Harness::new(case.nonce);
                        let r = (helper.0)(&caller, &case.contract, args);
                        let seen = caller.querier.smart_seen.borrow().clone();
                        if seen.len() != 1 {
                            return Err(viol("query-count", "query helper did not issue exactly one smart query", json!({"helper": salt, "issued": seen.len(), "result": format!("{r:?}")})));
                        }
                        if seen[0].0 != case.contract {
                            return Err(viol("query-addr", "smart query is not addressed to the handle's address", json!({"helper": salt, "expected": case.contract, "got": seen[0].0})));
                        }
                        let body = seen[0].1.clone();
                        let Some(entry) = p.entries.get(&Kind::Query) else { return Ok(()) };
                        let mut target = case.harness();
                        target.set_fail(false);
                        let mut c2 = case.clone();
                        c2.fail = false;
                        let out = match entry(&mut target, &body) {
                            Err(e) => return Err(viol("query-body-rejected", "the target's query entry point rejects the body built by the helper", json!({"helper": salt, "body": String::from_utf8_lossy(&body), "error": e}))),
                            Ok(out) => out,
                        };
                        super::c02::check_call(&p.model, h, args, &c2, &target, &out, "remote-query")?;
                        let Ok(OkRepr::Binary(bin)) = &out.result else { return Ok(()) };
                        // step 2: answer with the target's response; the helper must return it decoded
                        let caller = Harness::new(case.nonce);
                        let canned = bin.clone();
                        *caller.querier.smart_hook.borrow_mut() = Some(Box::new(move |_, _| Ok(canned.clone())));
                        let r = (helper.0)(&caller, &case.contract, args);
                        let want = out.log[0].returned.get("ok").cloned().unwrap_or(Value::Null);
                        match r {
                            Ok(v) if v == want => Ok(()),
                            other => Err(viol("query-response", "query helper does not return the decoded response of the handler", json!({"helper": salt, "handler_returned": want, "helper_returned": format!("{other:?}")}))),
                        }
                    },
                )
            };
            if !ok {
                return;
            }
        }
    }
    // instantiate builder
    let Some(h) = handlers.iter().find(|h| h.kind == Kind::Instantiate) else { return };
    let Some(helper) = p.extra::<InstHelper>("inst_builder") else {
        rep.harness_errors.push("missing instantiate builder glue".into());
        return;
    };
    run_cases(
        cfg,
        &p.model.id,
        "inst_builder",
        (args_strategy(&h.conc), inst_strategy(), super::c02::env_strategy_with_resp()).boxed(),
        rep,
        |(args, ic, case): &(Vec<Value>, InstCase, EnvCase), tally| {
            tally.class("instantiate-builder");
            tally.class(if ic.salt.is_some() { "inst:build2" } else { "inst:build" });
            tally.class(if ic.label.is_some() { "inst:label-set" } else { "inst:label-unset" });
            let opts = ic.label.is_some() as u8 + ic.admin.is_some() as u8 + ic.funds.is_some() as u8;
            if opts >= 2 {
                tally.nontrivial(&(&p.model.id, "inst", ic.to_json().to_string(), serde_json::to_string(args).unwrap()));
            }
            let mut b = (helper.0)(ic.code_id, args)?;
            if let Some(l) = &ic.label {
                b = b.with_label(l.clone());
            }
            if let Some(a) = &ic.admin {
                b = b.with_admin(a.clone());
            }
            if let Some(f) = &ic.funds {
                b = b.with_funds(coins(f));
            }
            let msg = match &ic.salt {
                Some(s) => b.build2(Binary::from(s.clone())),
                None => b.build(),
            };
            let (code_id, body, admin, label, funds, salt) = match msg {
                WasmMsg::Instantiate { code_id, msg, admin, label, funds } => (code_id, msg, admin, label, funds, None),
                WasmMsg::Instantiate2 { code_id, msg, admin, label, funds, salt } => (code_id, msg, admin, label, funds, Some(salt.to_vec())),
                other => return Err(viol("inst-variant", "instantiate builder built a wrong message variant", json!({"msg": format!("{other:?}")}))),
            };
            let got = json!({"code_id": code_id, "admin": admin, "label": label, "funds": funds, "salt": salt});
            let want = json!({"code_id": ic.code_id, "admin": ic.admin, "label": ic.label.clone().unwrap_or_default(),
                "funds": ic.funds.as_ref().map(|f| coins(f)).unwrap_or_default(), "salt": ic.salt});
            if got != want {
                return Err(viol("inst-fields", "instantiate message fields differ from what was set on the builder", json!({"expected": want, "got": got})));
            }
            let Some(entry) = p.entries.get(&Kind::Instantiate) else { return Ok(()) };
            let mut target = case.harness();
            target.set_fail(false);
            let mut c2 = case.clone();
            c2.fail = false;
            match entry(&mut target, body.as_slice()) {
                Err(e) => Err(viol("inst-body-rejected", "the instantiate entry point rejects the body built by the builder", json!({"body": String::from_utf8_lossy(body.as_slice()), "error": e}))),
                Ok(out) => super::c02::check_call(&p.model, h, args, &c2, &target, &out, "inst-builder"),
            }
        },
    );
    let _ = body_of;
}
