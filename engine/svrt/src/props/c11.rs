//! C11(b) -- bridging to chain-custom types preserves the response and the call.

use super::c02::{env_strategy, EnvCase};
use super::rt::resp_spec_strategy;
use super::*;
use crate::harness::OkRepr;
use svmodel::{CustomStyle, Kind};

pub fn run(p: &Prog, cfg: &Cfg, rep: &mut Report) {
    let handlers = p.model.handlers();
    for h in handlers.iter().filter(|h| h.kind == Kind::Exec || h.kind == Kind::Sudo) {
        // is the handler written for Empty inside a custom-typed contract?
        let plain_iface = h.part > 0 && p.model.interfaces[h.part - 1].style == CustomStyle::Plain;
        let bridged_msg = plain_iface && p.model.contract.custom_msg;
        let bridged_query = plain_iface && p.model.contract.custom_query;
        let strat = (args_strategy(&h.conc), env_strategy(), resp_spec_strategy(if bridged_msg { 3 } else { 1 }), proptest::bool::ANY)
            .prop_map(|(a, e, s, entry)| (a, e, json!({"spec": serde_json::to_value(&s).unwrap(), "via_entry": entry})))
            .boxed();
        let ok = run_cases(cfg, &p.model.id, &h.id, strat, rep, |(args, case, sel): &(Vec<Value>, EnvCase, Value), tally| {
            let spec: crate::echo::RespSpec = serde_json::from_value(sel["spec"].clone()).unwrap();
            let via_entry = sel["via_entry"].as_bool().unwrap_or(false) && p.entries.contains_key(&h.kind);
            let has_custom = spec.msgs.iter().any(|m| m.kind == "custom");
            tally.class(if bridged_msg { "handler:bridged-msg" } else if plain_iface { "handler:plain-interface" } else { "handler:native" });
            if bridged_query {
                tally.class("handler:bridged-query");
            }
            tally.class(if has_custom { "response:has-custom-msg" } else { "response:no-custom-msg" });
            let ids: std::collections::BTreeSet<u64> = spec.msgs.iter().map(|m| m.id).collect();
            if (bridged_msg || bridged_query) && ((spec.msgs.len() >= 2 && ids.len() >= 2 && spec.msgs.iter().any(|m| m.gas_limit.is_some())) || (!spec.events.is_empty() && spec.data.is_some())) {
                tally.nontrivial(&(&p.model.id, &h.id, sel.to_string()));
            }
            tally.sample(|| json!({"program": p.model.id, "handler": h.id, "bridged_msg": bridged_msg, "bridged_query": bridged_query, "spec": sel["spec"]}));
            let mut c2 = case.clone();
            c2.fail = false;
            let mut harness = c2.harness();
            harness.set_spec(Some(&spec));
            let built = (p.builders[&h.id])(args)?;
            let out = if via_entry {
                let text = p.parts[h.part][&h.kind].to_json(&*built.lit).map_err(|e| Bad::Harness(format!("HARNESS: {e}")))?;
                (p.entries[&h.kind])(&mut harness, text.as_bytes()).map_err(|e| viol("bridge:entry-rejects", "entry point rejects the part's own message", json!({"error": e})))?
            } else {
                let wrapped = (p.wraps[&(h.part, h.kind)])(built.lit);
                p.wrappers[&h.kind].dispatch(wrapped, &mut harness)
            };
            // the handler itself must have run in the caller's environment in every case
            if out.log.len() != 1 || out.log[0].id != h.id {
                return Err(viol("bridge:wrong-handler", "bridged dispatch did not run exactly the interface handler", json!({"handler": h.id, "ran": out.log.iter().map(|r| r.id.clone()).collect::<Vec<_>>()})));
            }
            let rec = &out.log[0];
            if rec.sentinel.as_deref() != Some(harness.expected_sentinel().as_str())
                || rec.env != serde_json::to_value(&harness.env).unwrap()
                || rec.querier_probe != harness.expected_querier_probe()
                || (h.kind.has_info() && rec.info != serde_json::to_value(&harness.info).unwrap())
            {
                return Err(viol("bridge:context", "bridged handler does not see the same storage / environment / sender / querier as a native one", json!({"handler": h.id, "record": rec})));
            }
            let must_fail = bridged_msg && has_custom;
            match (&out.result, must_fail) {
                (Err(_), true) => Ok(()),
                (Ok(_), true) => Err(viol("bridge:custom-accepted", "a response containing a custom-typed (Empty) message crossed the bridge", json!({"handler": h.id, "spec": sel["spec"]}))),
                (Err(e), false) => {
                    let stargate = spec.msgs.iter().any(|m| m.kind == "stargate") && e.text.contains("Unknown message variant");
                    Err(viol(format!("bridge:rejected:{}", if stargate { "stargate" } else { "other" }), "a response without custom-typed messages did not reach the caller", json!({"handler": h.id, "error": format!("{e:?}"), "spec": sel["spec"]})))
                }
                (Ok(OkRepr::Response(v)), false) => {
                    let returned = rec.returned.get("ok").cloned().unwrap_or(Value::Null);
                    if *v != returned {
                        Err(viol("bridge:changed", "the response reaching the caller differs from the one the handler returned", json!({"handler": h.id, "returned": returned, "received": v})))
                    } else {
                        Ok(())
                    }
                }
                (Ok(_), false) => Ok(()),
            }
        });
        if !ok {
            return;
        }
    }
}
