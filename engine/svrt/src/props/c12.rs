//! C12 -- multitest proxies are equivalent to sending the raw JSON message.

use super::c01::{body_of, doc_of};
use super::*;
use crate::mt::{InstOpts, MtFactory, StepRes};
use crate::types::ErrRepr;
use proptest::prelude::*;
use svmodel::{ErrTy, HandlerView, Kind};
use sylvia::cw_std::{Coin, Uint128};

#[derive(Clone, Debug)]
pub enum Op {
    /// `pre`: earlier calls of `with_admin` (0) / `with_salt` (1) on the same proxy, later overwritten
    Instantiate { args: Vec<Value>, label: Option<String>, admin: Option<u8>, funds: Option<Vec<(u8, u16)>>, salt: Option<Vec<u8>>, sender: u8, pre: Vec<(u8, Option<Vec<u8>>)> },
    Call { handler: usize, args: Vec<Value>, contract: u16, funds: Vec<(u8, u16)>, sender: u8 },
    Migrate { args: Vec<Value>, contract: u16, sender: u8 },
    SetFail { contract: u16, fail: bool },
}

const DENOMS: [&str; 2] = ["ucosm", "ustake"];

impl Op {
    fn json(&self) -> Value {
        match self {
            Op::Instantiate { args, label, admin, funds, salt, sender, pre } => json!({"op": "instantiate", "args": args, "label": label, "admin": admin, "funds": funds, "salt": salt, "sender": sender, "pre": pre}),
            Op::Call { handler, args, contract, funds, sender } => json!({"op": "call", "handler": handler, "args": args, "contract": contract, "funds": funds, "sender": sender}),
            Op::Migrate { args, contract, sender } => json!({"op": "migrate", "args": args, "contract": contract, "sender": sender}),
            Op::SetFail { contract, fail } => json!({"op": "set_fail", "contract": contract, "fail": fail}),
        }
    }
    fn parse(v: &Value) -> Option<Op> {
        let funds = |v: &Value| -> Option<Vec<(u8, u16)>> { serde_json::from_value(v.clone()).ok() };
        match v["op"].as_str()? {
            "instantiate" => Some(Op::Instantiate {
                args: v["args"].as_array()?.clone(),
                label: v["label"].as_str().map(|s| s.to_string()),
                admin: v["admin"].as_u64().map(|a| a as u8),
                funds: if v["funds"].is_null() { None } else { funds(&v["funds"]) },
                salt: if v["salt"].is_null() { None } else { serde_json::from_value(v["salt"].clone()).ok() },
                sender: v["sender"].as_u64()? as u8,
                pre: serde_json::from_value(v["pre"].clone()).unwrap_or_default(),
            }),
            "call" => Some(Op::Call { handler: v["handler"].as_u64()? as usize, args: v["args"].as_array()?.clone(), contract: v["contract"].as_u64()? as u16, funds: funds(&v["funds"])?, sender: v["sender"].as_u64()? as u8 }),
            "migrate" => Some(Op::Migrate { args: v["args"].as_array()?.clone(), contract: v["contract"].as_u64()? as u16, sender: v["sender"].as_u64()? as u8 }),
            "set_fail" => Some(Op::SetFail { contract: v["contract"].as_u64()? as u16, fail: v["fail"].as_bool()? }),
            _ => None,
        }
    }
}

#[derive(Clone, Debug)]
pub struct History(pub Vec<Op>);

impl Case for History {
    fn to_json(&self) -> Value {
        Value::Array(self.0.iter().map(|o| o.json()).collect())
    }
    fn from_json(v: &Value) -> Option<Self> {
        Some(History(v.as_array()?.iter().map(Op::parse).collect::<Option<Vec<_>>>()?))
    }
}

fn coins_of(f: &[(u8, u16)]) -> Vec<Coin> {
    // deliberately *not* normalised: any order, repeated denoms and zero amounts are passed on
    // exactly as generated (the chain, not the proxy, decides what to do with them)
    f.iter().map(|(d, a)| Coin { denom: DENOMS[*d as usize % 2].to_string(), amount: Uint128::new(*a as u128) }).collect()
}

fn funds_strategy() -> BoxedStrategy<Vec<(u8, u16)>> {
    prop_oneof![2 => Just(vec![]), 4 => proptest::collection::vec((0u8..2, prop_oneof![6 => 1u16..300, 1 => Just(0u16)]), 1..4)].boxed()
}

fn history_strategy(handlers: &[HandlerView], inst: &HandlerView, migrate: Option<&HandlerView>, max_ops: usize) -> BoxedStrategy<History> {
    let calls: Vec<(usize, HandlerView)> = handlers.iter().cloned().enumerate().filter(|(_, h)| h.kind.is_enum()).collect();
    let inst_args = args_strategy(&inst.conc);
    let inst_op = (
        inst_args,
        proptest::option::of("[ -~]{0,12}"),
        // 0..2 = one of the senders, 3 = the empty string (the chain does not inspect an admin)
        proptest::option::of(0u8..4),
        proptest::option::of(funds_strategy()),
        proptest::option::of(proptest::collection::vec(any::<u8>(), 1..8)),
        0u8..3,
        prop_oneof![3 => Just(vec![]), 2 => proptest::collection::vec((0u8..2, proptest::option::of(proptest::collection::vec(any::<u8>(), 1..6))), 1..4)],
    )
        .prop_map(|(args, label, admin, funds, salt, sender, pre)| Op::Instantiate { args, label, admin, funds, salt, sender, pre })
        .boxed();
    let mut choices: Vec<(u32, BoxedStrategy<Op>)> = vec![(3, inst_op.clone())];
    if !calls.is_empty() {
        let n = calls.len();
        let call_op = (0..n, any::<u16>(), funds_strategy(), 0u8..3)
            .prop_flat_map(move |(ci, contract, funds, sender)| {
                let (hi, h) = calls[ci].clone();
                args_strategy(&h.conc).prop_map(move |args| Op::Call { handler: hi, args, contract, funds: funds.clone(), sender })
            })
            .boxed();
        choices.push((8, call_op));
    }
    if let Some(m) = migrate {
        let ms = (args_strategy(&m.conc), any::<u16>(), 0u8..3).prop_map(|(args, contract, sender)| Op::Migrate { args, contract, sender }).boxed();
        choices.push((2, ms));
    }
    choices.push((3, (any::<u16>(), proptest::bool::weighted(0.75)).prop_map(|(contract, fail)| Op::SetFail { contract, fail }).boxed()));
    let op = proptest::strategy::Union::new_weighted(choices).boxed();
    (inst_op, proptest::collection::vec(op, 0..max_ops)).prop_map(|(first, rest)| History(std::iter::once(first).chain(rest).collect())).boxed()
}

fn expected_handler_err(p: &Prog, h: &HandlerView) -> ErrRepr {
    let h_err = if h.err == ErrTy::Custom && p.model.contract.error == ErrTy::Custom { ErrTy::Custom } else { ErrTy::Std };
    super::c02::expected_err(&p.model, h_err, &h.id)
}

pub fn run(p: &Prog, cfg: &Cfg, rep: &mut Report) {
    let Some(factory) = p.extra::<MtFactory>("mt_world") else {
        rep.notes.push(format!("{}: no multitest glue (reply / override program)", p.model.id));
        return;
    };
    let handlers = p.model.handlers();
    let inst = handlers.iter().find(|h| h.kind == Kind::Instantiate).expect("instantiate").clone();
    let migrate = handlers.iter().find(|h| h.kind == Kind::Migrate).cloned();
    let max_ops = if cfg.cases > 100 { 30 } else { 12 };
    let strat = history_strategy(&handlers, &inst, migrate.as_ref(), max_ops);
    let mut c2 = cfg.clone();
    c2.cases = (cfg.cases * 5 / 8).max(8);
    run_cases(&c2, &p.model.id, "history", strat, rep, |hist: &History, tally| {
        let balances: Vec<(String, Vec<Coin>)> = (0..3).map(|i| (format!("sender{i}"), vec![Coin { denom: "ucosm".into(), amount: Uint128::new(10_000) }, Coin { denom: "ustake".into(), amount: Uint128::new(if i == 2 { 0 } else { 700 }) }])).collect();
        let mut w = (factory.0)(&balances);
        let senders = w.senders();
        let mut failing: std::collections::BTreeSet<usize> = Default::default();
        let (mut saw_opts, mut saw_fail, mut saw_funds_after) = (false, false, false);
        tally.class(&format!("ops:{}", hist.0.len().min(15)));
        for (step, op) in hist.0.iter().enumerate() {
            let at = |what: &str, detail: Value| viol(what.to_string(), "proxy call and raw JSON submission diverge", json!({"step": step, "op": op.json(), "detail": detail}));
            let (ra, rb, handler): (StepRes, StepRes, Option<&HandlerView>) = match op {
                Op::Instantiate { args, label, admin, funds, salt, sender, pre } => {
                    let pre_admin: Vec<Option<String>> = pre.iter().filter(|(w, _)| *w == 0).map(|(_, v)| v.as_ref().map(|b| senders[b[0] as usize % senders.len()].clone())).collect();
                    let pre_salt: Vec<Option<Vec<u8>>> = pre.iter().filter(|(w, _)| *w == 1).map(|(_, v)| v.clone()).collect();
                    if !pre.is_empty() {
                        tally.class("instantiate:setters-called-repeatedly");
                    }
                    let opts = InstOpts { label: label.clone(), admin: admin.map(|a| if a == 3 { String::new() } else { senders[a as usize % senders.len()].clone() }), funds: funds.as_ref().map(|f| coins_of(f)), salt: salt.clone(), pre_admin, pre_salt };
                    let n = label.is_some() as u8 + admin.is_some() as u8 + funds.is_some() as u8 + salt.is_some() as u8;
                    tally.class(&format!("instantiate:options={n}"));
                    if n >= 2 {
                        saw_opts = true;
                    }
                    let body = body_of(&inst, args);
                    let (a, b) = w.instantiate(args, &body, &opts, *sender as usize);
                    (a, b, None)
                }
                Op::Call { handler, args, contract, funds, sender } => {
                    if w.contracts() == 0 {
                        continue;
                    }
                    let h = &handlers[*handler];
                    let c = (*contract as usize * w.contracts()) >> 16;
                    let doc = doc_of(h, &h.name, args);
                    tally.class(&format!("call:{}", h.kind.attr()));
                    let r = match h.kind {
                        Kind::Exec => {
                            let f = coins_of(funds);
                            if !f.is_empty() {
                                tally.class("exec:with-funds");
                                if saw_fail {
                                    saw_funds_after = true;
                                }
                            }
                            w.exec(c, &h.id, args, &doc, &f, *sender as usize)
                        }
                        Kind::Query => w.query(c, &h.id, args, &doc),
                        _ => w.sudo(c, &h.id, args, &doc),
                    };
                    if failing.contains(&c) {
                        // does the failure on the raw side come from the handler?
                        let want = expected_handler_err(p, h);
                        let from_handler = match &r.1 {
                            StepRes::Err(e) => *e == want || (h.kind == Kind::Query && e.text.contains(&h.id)),
                            _ => false,
                        };
                        if from_handler {
                            saw_fail = true;
                            tally.class("step:handler-error");
                            // an error returned by a handler surfaces as the contract's error type, equal to the one returned
                            match &r.0 {
                                StepRes::Err(e) if *e == want => {}
                                // query errors cross the querier boundary as text; the proxy converts them into the contract error
                                StepRes::Err(e) if h.kind == Kind::Query && e.text.contains(&h.id) => {}
                                other => return Err(at("handler-error", json!({"expected": format!("{want:?}"), "proxy_returned": format!("{other:?}")}))),
                            }
                        }
                    }
                    (r.0, r.1, Some(h))
                }
                Op::Migrate { args, contract, sender } => {
                    if w.contracts() == 0 {
                        continue;
                    }
                    let Some(m) = &migrate else { continue };
                    let c = (*contract as usize * w.contracts()) >> 16;
                    tally.class("migrate");
                    let body = body_of(m, args);
                    match w.migrate(c, args, &body, *sender as usize) {
                        Some((a, b)) => (a, b, Some(m)),
                        None => continue,
                    }
                }
                Op::SetFail { contract, fail } => {
                    if w.contracts() == 0 {
                        continue;
                    }
                    let c = (*contract as usize * w.contracts()) >> 16;
                    w.set_fail(c, *fail);
                    if *fail {
                        failing.insert(c);
                    } else {
                        failing.remove(&c);
                    }
                    continue;
                }
            };
            let _ = handler;
            // results agree
            match (&ra, &rb) {
                (StepRes::Ok(a), StepRes::Ok(b)) => {
                    if a != b {
                        return Err(at("result", json!({"proxy": a, "raw": b})));
                    }
                    tally.class("step:ok");
                }
                (StepRes::Err(a), StepRes::Err(b)) => {
                    tally.class("step:both-fail");
                    // exec: the error the proxy reports is the chain's error for the same JSON -- the
                    // contract's own / a StdError found in the chain as such, anything else as a generic
                    // error carrying the chain's (outermost) description
                    if let Op::Call { handler, .. } = op {
                        if handlers[*handler].kind == Kind::Exec {
                            use crate::types::ErrClass;
                            match b.class {
                                ErrClass::Other => {
                                    tally.class("exec-fail:chain-error");
                                    // (the chain's description embeds the JSON body, whose member order is the
                                    // submitter's business: compared up to there)
                                    let shown = a.text.strip_prefix("Generic error: ").unwrap_or(&a.text);
                                    let shown = shown.split("msg: ").next().unwrap_or(shown);
                                    if shown.is_empty() || !b.text.starts_with(shown) {
                                        return Err(at("exec-error-text", json!({"proxy": a.text, "raw": b.text})));
                                    }
                                }
                                _ => {
                                    tally.class("exec-fail:typed-error");
                                    if a.text != b.text {
                                        return Err(at("exec-error-text", json!({"proxy": a.text, "raw": b.text})));
                                    }
                                }
                            }
                        }
                    }
                }
                (StepRes::Panicked, StepRes::Err(_)) => tally.class("step:both-fail"),
                (a, b) => return Err(at("outcome", json!({"proxy": format!("{a:?}"), "raw": format!("{b:?}")}))),
            }
            // chain state agrees
            if let Err(e) = w.compare_state() {
                return Err(at("state", json!(e)));
            }
        }
        if saw_opts && saw_fail && saw_funds_after {
            tally.nontrivial(&hist.to_json().to_string());
        }
        if saw_opts {
            tally.class("history:instantiate-with->=2-options");
        }
        if saw_fail {
            tally.class("history:failing-handler");
        }
        tally.sample(|| json!({"program": p.model.id, "history": hist.to_json()}));
        Ok(())
    });
}
