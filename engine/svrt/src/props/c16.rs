//! C16 -- query response metadata names each query's real response type.

use super::docs::observed_names;
use super::*;
use schemars::schema::RootSchema;
use std::collections::BTreeMap;
use svmodel::{Kind, RespTy, Role, Ty};
use sylvia::schemars;

fn schema_of_ty(t: &Ty) -> RootSchema {
    match t {
        Ty::Rec => cosmwasm_schema::schema_for!(crate::types::Rec),
        Ty::Choice => cosmwasm_schema::schema_for!(crate::types::Choice),
        Ty::MyMsg => cosmwasm_schema::schema_for!(crate::types::MyMsg),
        other => panic!("no schema for response type {other:?}"),
    }
}

/// schema of the declared response type of a query method (model side)
fn declared_schema(p: &Prog, part: usize, resp: RespTy) -> RootSchema {
    match resp {
        RespTy::EchoA => cosmwasm_schema::schema_for!(crate::types::EchoA),
        RespTy::EchoB => cosmwasm_schema::schema_for!(crate::types::EchoB),
        RespTy::EchoC => cosmwasm_schema::schema_for!(crate::types::EchoC),
        RespTy::Bin => cosmwasm_schema::schema_for!(sylvia::cw_std::Binary),
        RespTy::Text => cosmwasm_schema::schema_for!(String),
        RespTy::Param(i) => {
            if part == 0 {
                schema_of_ty(&p.model.contract.generics[i])
            } else {
                schema_of_ty(&p.model.interfaces[part - 1].assoc[i])
            }
        }
    }
}

fn j<T: serde::Serialize>(t: &T) -> Value {
    serde_json::to_value(t).unwrap()
}

pub fn run(p: &Prog, cfg: &Cfg, rep: &mut Report) {
    if cfg.replay_case.is_some() && cfg.replay_case.as_ref().unwrap()["salt"] != "query-responses" {
        return;
    }
    let handlers = p.model.handlers();
    let names = match observed_names(p, cfg, &handlers) {
        Ok(n) => n,
        Err(bad) => {
            fail_fixed(rep, cfg, &p.model.id, "query-responses", json!(null), bad);
            return;
        }
    };
    let mut union: BTreeMap<String, Value> = BTreeMap::new();
    macro_rules! fail {
        ($key:expr, $what:expr, $detail:expr) => {
            if !fail_fixed(rep, cfg, &p.model.id, "query-responses", json!({"program": p.model.id}), viol($key, $what, $detail)) {
                return;
            }
        };
    }
    for part in 0..p.model.parts() {
        let Some(ops) = p.parts[part].get(&Kind::Query) else { continue };
        rep.evaluations += 1;
        let table = match ops.response_schemas() {
            Some(Ok(t)) => t,
            Some(Err(e)) => {
                fail!("table-error", "response_schemas() fails", json!({"part": p.model.part_name(part), "error": e}));
                continue;
            }
            None => continue,
        };
        let mut expected: BTreeMap<String, Value> = BTreeMap::new();
        let mut distinct = std::collections::BTreeSet::new();
        for m in p.model.methods_of(part) {
            if m.role != Role::Handler(Kind::Query) {
                continue;
            }
            let id = format!("{}::query::{}", p.model.part_name(part), m.name);
            expected.insert(names[&id].clone(), j(&declared_schema(p, part, m.resp)));
            distinct.insert(format!("{:?}", m.resp));
            rep.class(&format!("resp:{}", match m.resp { RespTy::Param(_) => "param-or-assoc", _ => if m.resp_explicit { "explicit" } else { "plain" } }));
        }
        if distinct.len() >= 2 {
            rep.nontrivial(&(&p.model.id, part, "multi-resp"));
        }
        let mut got: BTreeMap<String, Value> = table.iter().map(|(k, v)| (k.clone(), j(v))).collect();
        // generic message types carry one unsendable placeholder entry
        let phantom: Vec<String> = got.keys().filter(|k| k.contains("phantom") && !expected.contains_key(*k)).cloned().collect();
        if phantom.len() > 1 {
            fail!("table-extra", "more than one placeholder entry in the response table", json!({"part": p.model.part_name(part), "keys": phantom}));
        }
        for k in phantom {
            got.remove(&k);
            rep.class("phantom-entry");
        }
        rep.sample(json!({"program": p.model.id, "part": p.model.part_name(part), "queries": expected.keys().collect::<Vec<_>>()}));
        let gk: Vec<&String> = got.keys().collect();
        let ek: Vec<&String> = expected.keys().collect();
        if gk != ek {
            fail!("table-keys", "response table keys differ from the wire names of the part's queries", json!({"part": p.model.part_name(part), "table": gk, "queries": ek}));
            continue;
        }
        for (k, want) in &expected {
            if &got[k] != want {
                fail!("table-schema", "response table maps a query to a schema other than that of its declared response type", json!({"part": p.model.part_name(part), "query": k, "expected": want, "got": got[k]}));
            }
        }
        for (k, v) in got {
            union.insert(k, v);
        }
    }
    // contract level = union of the parts
    if let Some(wops) = p.wrappers.get(&Kind::Query) {
        rep.evaluations += 1;
        match wops.response_schemas() {
            Some(Ok(t)) => {
                let got: BTreeMap<String, Value> = t.iter().filter(|(k, _)| !(k.contains("phantom") && !union.contains_key(*k))).map(|(k, v)| (k.clone(), j(v))).collect();
                if p.model.parts() > 1 {
                    rep.nontrivial(&(&p.model.id, "union"));
                    rep.class("union:multi-part");
                }
                if got != union {
                    fail!("union", "contract-level response table is not the union of its parts' tables", json!({"contract_level": got.keys().collect::<Vec<_>>(), "union_of_parts": union.keys().collect::<Vec<_>>()}));
                }
            }
            Some(Err(e)) => {
                fail!("table-error", "contract-level response_schemas() fails", json!({"error": e}));
            }
            None => {}
        }
    }
    // the same for a second instantiation of a generic contract, asked for in the same process,
    // and once more for the first one (a table must not depend on which instantiation asked first)
    if let Some(alt) = p.extra::<crate::ops::AltSchemas>("alt_schemas") {
        rep.evaluations += 1;
        rep.class("union:second-instantiation");
        rep.nontrivial(&(&p.model.id, "alt"));
        let f = alt.0;
        match std::panic::catch_unwind(f).unwrap_or_else(|_| Err("panicked".to_string())) {
            Ok((parts, w)) => {
                let mut alt_union: BTreeMap<String, Value> = BTreeMap::new();
                for t in &parts {
                    for (k, v) in t {
                        // (the helper variant of generic message types is no query of any part: several
                        // parts carry one under the same key, with unrelated placeholder types)
                        if !k.contains("phantom") {
                            alt_union.insert(k.clone(), j(v));
                        }
                    }
                }
                let got: BTreeMap<String, Value> = w.iter().filter(|(k, _)| !k.contains("phantom")).map(|(k, v)| (k.clone(), j(v))).collect();
                if got != alt_union {
                    let differing: Vec<&String> = alt_union.keys().filter(|k| got.get(*k) != alt_union.get(*k)).collect();
                    fail!("union-alt", "contract-level response table of a second instantiation of the generic contract is not the union of that instantiation's part tables", json!({"differing_queries": differing, "contract_level": got.keys().collect::<Vec<_>>(), "first_difference": differing.first().map(|k| json!({"contract_level": got.get(*k), "union_of_parts": alt_union.get(*k)}))}));
                }
            }
            Err(e) => {
                fail!("table-error", "response_schemas() of a second instantiation fails", json!({"error": e}));
            }
        }
        if let Some(Some(Ok(t))) = p.wrappers.get(&Kind::Query).map(|w| w.response_schemas()) {
            let again: BTreeMap<String, Value> = t.iter().filter(|(k, _)| !(k.contains("phantom") && !union.contains_key(*k))).map(|(k, v)| (k.clone(), j(v))).collect();
            if again != union {
                fail!("union-again", "contract-level response table changed after another instantiation asked for its table", json!({"contract_level": again.keys().collect::<Vec<_>>()}));
            }
        }
    }
    // contract-level JSON schema = any-of of the parts' schemas
    for kind in Kind::ENUMS {
        let Some(wops) = p.wrappers.get(&kind) else { continue };
        rep.evaluations += 1;
        let ws = j(&wops.schema());
        let any_of = ws["anyOf"].as_array().cloned().unwrap_or_default();
        let defs = ws["definitions"].as_object().cloned().unwrap_or_default();
        let mut resolved: Vec<Value> = vec![];
        for a in &any_of {
            match a["$ref"].as_str().and_then(|r| r.strip_prefix("#/definitions/")) {
                Some(name) => resolved.push(defs.get(name).cloned().unwrap_or(Value::Null)),
                None => resolved.push(a.clone()),
            }
        }
        let mut expected: Vec<Value> = vec![];
        for part in 0..p.model.parts() {
            let Some(ops) = p.parts[part].get(&kind) else { continue };
            let mut ps = j(&ops.schema());
            let o = ps.as_object_mut().unwrap();
            o.remove("$schema");
            o.remove("title");
            let pdefs = o.remove("definitions");
            if let Some(Value::Object(pd)) = pdefs {
                for (k, v) in pd {
                    if defs.get(&k) != Some(&v) {
                        fail!("schema-defs", "a definition of a part's schema is missing from the contract-level schema", json!({"kind": kind.attr(), "definition": k}));
                    }
                }
            }
            expected.push(ps);
        }
        let strip = |v: &Value| {
            let mut v = v.clone();
            if let Some(o) = v.as_object_mut() {
                o.remove("title");
            }
            v.to_string()
        };
        let mut a: Vec<String> = resolved.iter().map(strip).collect();
        let mut b: Vec<String> = expected.iter().map(strip).collect();
        a.sort();
        b.sort();
        if a != b {
            fail!("schema-anyof", "contract-level schema is not the any-of of its parts' schemas", json!({"kind": kind.attr(), "any_of": resolved, "parts": expected}));
        }
    }
}
