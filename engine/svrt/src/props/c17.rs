//! C17(b) -- forwarded attributes take effect on exactly the designated item: a defaulted
//! argument makes the field optional on the wire, an alias forwarded from a handler is accepted
//! by that handler's variant only.

use super::c01::body_of;
use super::docs::observed_names;
use super::*;
use crate::harness::Harness;
use svmodel::{ArgAttr, Kind, Role, Ty, VariantAttr};

fn default_json(ty: &Ty) -> Value {
    match ty {
        Ty::U8 | Ty::U32 | Ty::U64 | Ty::I32 => json!(0),
        Ty::Bool => json!(false),
        Ty::Str | Ty::Binary => json!(""),
        Ty::Uint128 => json!("0"),
        Ty::Vec(_) => json!([]),
        Ty::Map(_) => json!({}),
        Ty::Opt(_) => Value::Null,
        Ty::Boxed(inner) => default_json(inner),
        _ => Value::Null,
    }
}

pub fn run(p: &Prog, cfg: &Cfg, rep: &mut Report) {
    let handlers = p.model.handlers();
    let names = match observed_names(p, cfg, &handlers) {
        Ok(n) => n,
        Err(bad) => {
            fail_fixed(rep, cfg, &p.model.id, "observed-names", json!(null), bad);
            return;
        }
    };
    for h in &handlers {
        let ops = &p.parts[h.part][&h.kind];
        let name = if h.kind.is_enum() { names[&h.id].clone() } else { String::new() };
        let aliases: Vec<String> = p
            .model
            .methods_of(h.part)
            .iter()
            .find(|m| m.name == h.name && m.role == Role::Handler(h.kind))
            .map(|m| m.variant_attrs.iter().filter_map(|a| if let VariantAttr::SerdeAlias(s) = a { Some(s.clone()) } else { None }).collect())
            .unwrap_or_default();
        let ok = run_cases(cfg, &p.model.id, &h.id, (args_strategy(&h.conc), 0usize..8).prop_map(|(a, i)| (a, json!(i))).boxed(), rep, |(args, sel): &(Vec<Value>, Value), tally| {
            let body = body_of(h, args);
            let wrap = |b: &Value, n: &str| if h.kind.is_enum() { json!({ n: b }) } else { b.clone() };
            // (i) a missing field is accepted iff the argument carries #[serde(default)] or is an Option
            if !h.args.is_empty() {
                let i = sel.as_u64().unwrap() as usize % h.args.len();
                let a = &h.args[i];
                let mut b = body.clone();
                b.as_object_mut().unwrap().remove(a.key());
                let doc = wrap(&b, &name);
                let defaulted = a.attrs.contains(&ArgAttr::SerdeDefault);
                // serde treats a missing field as `None` for Option<..>, also behind a Box
                fn is_optional(t: &Ty) -> bool {
                    match t {
                        Ty::Opt(_) => true,
                        Ty::Boxed(inner) => is_optional(inner),
                        _ => false,
                    }
                }
                let optional = is_optional(&h.conc[i]);
                let want = defaulted || optional;
                let got = ops.from_json(doc.to_string().as_bytes());
                tally.class(if defaulted { "field:serde-default" } else if optional { "field:option" } else { "field:required" });
                if defaulted {
                    tally.nontrivial(&(&p.model.id, &h.id, i, doc.to_string()));
                }
                tally.sample(|| json!({"program": p.model.id, "handler": h.id, "dropped_field": a.key(), "forwarded_default": defaulted, "doc": doc}));
                match (want, got) {
                    (true, Err(e)) => return Err(viol(format!("default-not-effective:{}", h.kind.attr()), "a field whose argument carries #[serde(default)] (or is an Option) is not optional on the wire", json!({"handler": h.id, "field": a.key(), "doc": doc, "error": e}))),
                    (false, Ok(_)) => return Err(viol(format!("default-leaked:{}", h.kind.attr()), "a field without a forwarded default is optional on the wire", json!({"handler": h.id, "field": a.key(), "doc": doc}))),
                    (true, Ok(m)) => {
                        // the handler receives the default value
                        let mut harness = Harness::new(1);
                        let out = ops.dispatch(m, &mut harness);
                        if out.log.len() != 1 || out.log[0].id != h.id {
                            return Err(viol("default-wrong-handler", "message with a defaulted field reaches another handler", json!({"handler": h.id})));
                        }
                        let want_v = default_json(&h.conc[i]);
                        if out.log[0].args[a.key()] != want_v {
                            return Err(viol(format!("default-value:{}", h.kind.attr()), "a defaulted field does not arrive as the type's default value", json!({"handler": h.id, "field": a.key(), "expected": want_v, "received": out.log[0].args[a.key()]})));
                        }
                    }
                    (false, Err(_)) => {}
                }
            }
            // (ii) aliases forwarded with sv::attr are accepted by this variant and by no other type
            for al in &aliases {
                let doc = wrap(&body, al);
                tally.class("alias");
                tally.nontrivial(&(&p.model.id, &h.id, al));
                match ops.from_json(doc.to_string().as_bytes()) {
                    Err(e) => return Err(viol(format!("alias-not-effective:{}", h.kind.attr()), "an alias forwarded from a handler is not accepted by its variant", json!({"handler": h.id, "alias": al, "error": e}))),
                    Ok(m) => {
                        let mut harness = Harness::new(1);
                        let out = ops.dispatch(m, &mut harness);
                        if out.log.len() != 1 || out.log[0].id != h.id {
                            return Err(viol("alias-wrong-handler", "an aliased message reaches another handler", json!({"handler": h.id, "alias": al, "ran": out.log.iter().map(|r| r.id.clone()).collect::<Vec<_>>()})));
                        }
                    }
                }
                for part in 0..p.model.parts() {
                    for kind in Kind::ENUMS {
                        if part == h.part && kind == h.kind {
                            continue;
                        }
                        if let Some(o) = p.parts[part].get(&kind) {
                            if let Ok(m) = o.from_json(json!({ al.as_str(): {} }).to_string().as_bytes()) {
                                return Err(viol("alias-leaked", "an alias forwarded from one handler is accepted by another message type", json!({"alias": al, "type": o.type_name(), "value": o.debug(&*m)})));
                            }
                        }
                    }
                }
            }
            Ok(())
        });
        if !ok {
            return;
        }
    }
}
