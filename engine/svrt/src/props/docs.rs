//! Generated JSON documents: well-formed messages of every handler and malformed
//! documents derived from them (as text, so that duplicate keys can be expressed).

use super::c01::{body_of, mutations};
use super::*;
use proptest::prelude::*;
use svmodel::{HandlerView, Kind};

#[derive(Clone, Debug)]
pub struct Doc {
    /// class of the document (see `CLASSES`)
    pub class: String,
    pub text: String,
    /// handler the document was derived from
    pub origin: String,
}

impl Case for Doc {
    fn to_json(&self) -> Value {
        json!({"class": self.class, "text": self.text, "origin": self.origin})
    }
    fn from_json(v: &Value) -> Option<Self> {
        Some(Doc {
            class: v["class"].as_str()?.to_string(),
            text: v["text"].as_str()?.to_string(),
            origin: v["origin"].as_str()?.to_string(),
        })
    }
}

pub const CLASSES: &[&str] = &[
    "valid", "unknown-name", "other-kind-name", "zero-keys", "two-keys", "non-object", "body-wrong-type",
    "missing-field", "extra-field", "field-wrong-type", "dup-top-key", "dup-field", "name-as-string", "extra-field-number",
];

fn obj_text(pairs: &[(String, String)]) -> String {
    let inner: Vec<String> = pairs.iter().map(|(k, v)| format!("{}:{}", serde_json::to_string(k).unwrap(), v)).collect();
    format!("{{{}}}", inner.join(","))
}

/// Strategy over documents aimed at message kind `kind`.  `names` maps handler id to the
/// wire name the owning part actually uses (observed by serialisation).
pub fn doc_strategy(
    handlers: &[HandlerView],
    kind: Kind,
    names: &std::collections::BTreeMap<String, String>,
) -> Option<BoxedStrategy<Doc>> {
    let mine: Vec<HandlerView> = handlers.iter().filter(|h| h.kind == kind).cloned().collect();
    if mine.is_empty() {
        return None;
    }
    let others: Vec<String> = handlers.iter().filter(|h| h.kind != kind).map(|h| names.get(&h.id).cloned().unwrap_or(h.name.clone())).collect();
    let names = names.clone();
    let n = mine.len();
    let strat = (0..n, 0..CLASSES.len(), any::<u32>(), any::<u32>())
        .prop_flat_map(move |(hi, ci, aux, aux2)| {
            let h = mine[hi].clone();
            let h2 = mine[(aux2 as usize) % mine.len()].clone();
            let others = others.clone();
            let names = names.clone();
            (args_strategy(&h.conc), args_strategy(&h2.conc)).prop_map(move |(args, args2)| {
                let name = names.get(&h.id).cloned().unwrap_or(h.name.clone());
                let name2 = names.get(&h2.id).cloned().unwrap_or(h2.name.clone());
                let body = body_of(&h, &args);
                let body2 = body_of(&h2, &args2);
                let class = CLASSES[ci];
                let keys: Vec<String> = body.as_object().unwrap().keys().cloned().collect();
                let text = match class {
                    "valid" => json!({ name.as_str(): body }).to_string(),
                    "unknown-name" => {
                        // one in four: the spellings of the helper variant generic message types carry
                        if aux % 4 == 3 {
                            let pick = ["__phantom", "_phantom", "_Phantom", "phantom"][(aux2 as usize) % 4];
                            let b = [Value::Null, json!([]), json!({}), json!([null])][((aux2 >> 8) as usize) % 4].clone();
                            json!({ pick: b }).to_string()
                        } else {
                            let m = mutations(&name);
                            let pick = m[(aux as usize) % m.len()].clone();
                            json!({ pick: body }).to_string()
                        }
                    }
                    "other-kind-name" => {
                        let pick = if others.is_empty() { format!("{name}_zz") } else { others[(aux as usize) % others.len()].clone() };
                        json!({ pick: body }).to_string()
                    }
                    "zero-keys" => "{}".to_string(),
                    "two-keys" => {
                        if aux % 2 == 0 && name2 != name {
                            obj_text(&[(name.clone(), body.to_string()), (name2.clone(), body2.to_string())])
                        } else {
                            obj_text(&[(name.clone(), body.to_string()), (format!("{name}_extra"), "{}".to_string())])
                        }
                    }
                    "non-object" => match aux % 5 {
                        0 => json!([{ name.as_str(): body }]).to_string(),
                        1 => "17".to_string(),
                        2 => "true".to_string(),
                        3 => "null".to_string(),
                        _ => json!([name, body]).to_string(),
                    },
                    "name-as-string" => serde_json::to_string(&name).unwrap(),
                    "body-wrong-type" => match aux % 4 {
                        0 => json!({ name.as_str(): "body" }).to_string(),
                        1 => json!({ name.as_str(): [body] }).to_string(),
                        2 => json!({ name.as_str(): null }).to_string(),
                        _ => json!({ name.as_str(): 5 }).to_string(),
                    },
                    "missing-field" => {
                        let mut b = body.clone();
                        if !keys.is_empty() {
                            b.as_object_mut().unwrap().remove(&keys[(aux as usize) % keys.len()]);
                        }
                        json!({ name.as_str(): b }).to_string()
                    }
                    "extra-field" => {
                        let mut b = body.clone();
                        b.as_object_mut().unwrap().insert("vp_unknown_field".into(), json!([1, "x"]));
                        json!({ name.as_str(): b }).to_string()
                    }
                    "extra-field-number" => {
                        // an unknown (ignored) field holding a number literal outside CosmWasm's
                        // integer-only dialect: float, exponent form, beyond 128 bits
                        const LITS: &[&str] = &["1.5", "-0.25", "1e3", "340282366920938463463374607431768211456", "-170141183460469231731687303715884105729", "555555555555555555555555555555555555555555555555555555555555"];
                        let mut pairs: Vec<(String, String)> = body.as_object().unwrap().iter().map(|(k, v)| (k.clone(), v.to_string())).collect();
                        pairs.push(("vp_unknown_field".to_string(), LITS[(aux as usize) % LITS.len()].to_string()));
                        obj_text(&[(name.clone(), obj_text(&pairs))])
                    }
                    "field-wrong-type" => {
                        let mut b = body.clone();
                        if !keys.is_empty() {
                            let i = (aux as usize) % keys.len();
                            let ty = &h.conc[h.args.iter().position(|a| a.key() == keys[i]).unwrap()];
                            b.as_object_mut().unwrap().insert(keys[i].clone(), svmodel::json::wrong_value(ty));
                        }
                        json!({ name.as_str(): b }).to_string()
                    }
                    "dup-top-key" => obj_text(&[(name.clone(), body.to_string()), (name.clone(), body.to_string())]),
                    "dup-field" => {
                        if keys.is_empty() {
                            json!({ name.as_str(): body }).to_string()
                        } else {
                            let k = &keys[(aux as usize) % keys.len()];
                            let mut pairs: Vec<(String, String)> = body.as_object().unwrap().iter().map(|(k, v)| (k.clone(), v.to_string())).collect();
                            pairs.push((k.clone(), body[k].to_string()));
                            obj_text(&[(name.clone(), obj_text(&pairs))])
                        }
                    }
                    _ => unreachable!(),
                };
                Doc { class: class.to_string(), text, origin: h.id.clone() }
            })
        })
        .boxed();
    Some(strat)
}

/// Observed wire names of all enum-kind handlers (handler id -> top-level key).
pub fn observed_names(p: &Prog, cfg: &Cfg, handlers: &[HandlerView]) -> Result<std::collections::BTreeMap<String, String>, Bad> {
    let mut out = std::collections::BTreeMap::new();
    for h in handlers.iter().filter(|h| h.kind.is_enum()) {
        let args = draw(&args_strategy(&h.conc), seed_for(cfg, &p.model.id, &format!("obs:{}", h.id)));
        out.insert(h.id.clone(), super::c01::observed_name(p, h, &args)?);
    }
    Ok(out)
}
