//! Property runners executed inside corpus binaries.

use crate::ops::Prog;
use crate::report::{Failure, Report};
use proptest::strategy::{BoxedStrategy, Strategy, ValueTree};
use proptest::test_runner::{Config, RngAlgorithm, RngSeed, TestCaseError, TestError, TestRng, TestRunner};
use serde_json::{json, Value};
use std::cell::RefCell;
use std::fmt::Debug;
use std::hash::{Hash, Hasher};

pub mod c01;
pub mod c02;

#[derive(Clone, Debug)]
pub struct Cfg {
    pub prop: String,
    pub seed: u64,
    pub cases: u32,
    pub only: Option<String>,
    pub out: String,
    pub replay: Option<String>,
    pub known: Vec<String>,
    pub threads: usize,
}

pub fn hash_of<T: Hash>(t: &T) -> u64 {
    let mut h = std::collections::hash_map::DefaultHasher::new();
    t.hash(&mut h);
    h.finish()
}

pub fn seed_for(cfg: &Cfg, program: &str, salt: &str) -> u64 {
    hash_of(&(cfg.seed, &cfg.prop, program, salt))
}

/// Statistics gathered while cases pass (frozen at the first failure so that shrinking
/// re-runs do not inflate the counts).
pub struct Tally<'a> {
    rep: &'a RefCell<Report>,
    frozen: &'a std::cell::Cell<bool>,
}

impl Tally<'_> {
    pub fn class(&self, name: &str) {
        if !self.frozen.get() {
            self.rep.borrow_mut().class(name);
        }
    }
    pub fn nontrivial<T: Hash>(&self, t: &T) {
        if !self.frozen.get() {
            self.rep.borrow_mut().nontrivial(t);
        }
    }
    pub fn sample(&self, v: impl FnOnce() -> Value) {
        if !self.frozen.get() && self.rep.borrow().samples.len() < 6 {
            let v = v();
            self.rep.borrow_mut().sample(v);
        }
    }
}

/// A check failure: `Violation` is a property violation, `Harness` a generator / harness
/// problem (reported as inconclusive).
#[derive(Debug, Clone)]
pub enum Bad {
    Violation { key: String, what: String, detail: Value },
    Harness(String),
}

pub fn viol(key: impl Into<String>, what: impl Into<String>, detail: Value) -> Bad {
    Bad::Violation { key: key.into(), what: what.into(), detail }
}

impl From<String> for Bad {
    fn from(s: String) -> Self {
        if s.starts_with("HARNESS") {
            Bad::Harness(s)
        } else {
            Bad::Harness(format!("HARNESS: {s}"))
        }
    }
}

/// Run `cases` generated cases of `strat` through `f`; on failure proptest shrinks the
/// case and the shrunk failure is recorded in the report.  Returns false on failure.
pub fn run_cases<T: Debug + Clone + 'static>(
    cfg: &Cfg,
    program: &str,
    salt: &str,
    strat: BoxedStrategy<T>,
    rep: &mut Report,
    to_json: impl Fn(&T) -> Value,
    f: impl Fn(&T, &Tally) -> Result<(), Bad>,
) -> bool {
    let seed = seed_for(cfg, program, salt);
    let mut seed_bytes = [0u8; 32];
    seed_bytes[..8].copy_from_slice(&seed.to_le_bytes());
    seed_bytes[8..16].copy_from_slice(&seed.rotate_left(17).to_le_bytes());
    let config = Config {
        cases: cfg.cases,
        failure_persistence: None,
        rng_seed: RngSeed::Fixed(seed),
        max_shrink_iters: 400,
        ..Config::default()
    };
    let mut runner = TestRunner::new_with_rng(config, TestRng::from_seed(RngAlgorithm::ChaCha, &seed_bytes));
    let cell = RefCell::new(std::mem::take(rep));
    let frozen = std::cell::Cell::new(false);
    let last_bad: RefCell<Option<Bad>> = RefCell::new(None);
    let evals = std::cell::Cell::new(0u64);
    let result = runner.run(&strat, |case| {
        let tally = Tally { rep: &cell, frozen: &frozen };
        if !frozen.get() {
            evals.set(evals.get() + 1);
        }
        match f(&case, &tally) {
            Ok(()) => Ok(()),
            Err(bad) => {
                frozen.set(true);
                let msg = format!("{:?}", bad);
                *last_bad.borrow_mut() = Some(bad);
                Err(TestCaseError::fail(msg))
            }
        }
    });
    *rep = cell.into_inner();
    rep.evaluations += evals.get();
    match result {
        Ok(()) => true,
        Err(TestError::Fail(_, shrunk)) => {
            // re-evaluate the shrunk case to get its own failure description
            let cell2 = RefCell::new(Report::default());
            let frozen2 = std::cell::Cell::new(true);
            let tally = Tally { rep: &cell2, frozen: &frozen2 };
            let bad = match f(&shrunk, &tally) {
                Err(b) => b,
                Ok(()) => last_bad.borrow().clone().unwrap_or(Bad::Harness("HARNESS: shrunk case passes".into())),
            };
            match bad {
                Bad::Violation { key, what, detail } => rep.failures.push(Failure {
                    program: program.to_string(),
                    what,
                    key,
                    detail: json!({"salt": salt, "case": to_json(&shrunk), "detail": detail}),
                }),
                Bad::Harness(h) => rep.harness_errors.push(format!("{program}/{salt}: {h} case={}", to_json(&shrunk))),
            }
            false
        }
        Err(TestError::Abort(r)) => {
            rep.harness_errors.push(format!("{program}/{salt}: proptest aborted: {r}"));
            false
        }
    }
}

/// Draw one value from a strategy deterministically (used for per-program fixed samples).
pub fn draw<T: Debug>(strat: &BoxedStrategy<T>, seed: u64) -> T {
    let mut seed_bytes = [0u8; 32];
    seed_bytes[..8].copy_from_slice(&seed.to_le_bytes());
    let mut runner = TestRunner::new_with_rng(Config::default(), TestRng::from_seed(RngAlgorithm::ChaCha, &seed_bytes));
    strat.new_tree(&mut runner).expect("strategy draws").current()
}

pub fn args_strategy(conc: &[svmodel::Ty]) -> BoxedStrategy<Vec<Value>> {
    let v: Vec<BoxedStrategy<Value>> = conc.iter().map(svmodel::json::value_strategy).collect();
    v.boxed()
}

pub type PropFn = fn(&Prog, &Cfg, &mut Report);

pub fn lookup(prop: &str) -> Option<PropFn> {
    match prop {
        "C01" => Some(c01::run),
        "C02" => Some(c02::run),
        _ => None,
    }
}

pub fn parse_args() -> Cfg {
    let mut cfg = Cfg {
        prop: String::new(),
        seed: 0,
        cases: 64,
        only: None,
        out: "report.json".into(),
        replay: None,
        known: vec![],
        threads: 16,
    };
    let mut it = std::env::args().skip(1);
    while let Some(a) = it.next() {
        let mut val = || it.next().expect("flag value");
        match a.as_str() {
            "--prop" => cfg.prop = val(),
            "--seed" => cfg.seed = val().parse().expect("seed"),
            "--cases" => cfg.cases = val().parse().expect("cases"),
            "--only" => cfg.only = Some(val()),
            "--out" => cfg.out = val(),
            "--replay" => cfg.replay = Some(val()),
            "--known" => cfg.known.push(val()),
            "--threads" => cfg.threads = val().parse().expect("threads"),
            other => panic!("unknown argument {other}"),
        }
    }
    cfg
}

/// Entry point of every corpus binary.
pub fn run_main(programs: Vec<fn() -> Prog>) {
    std::panic::set_hook(Box::new(|_| {}));
    let cfg = parse_args();
    let f = lookup(&cfg.prop).unwrap_or_else(|| {
        eprintln!("unknown property {}", cfg.prop);
        std::process::exit(2)
    });
    let total = programs.len();
    let queue = std::sync::Mutex::new(programs.into_iter().collect::<Vec<_>>());
    let merged = std::sync::Mutex::new(Report::new(&cfg.prop));
    std::thread::scope(|s| {
        for _ in 0..cfg.threads.min(total.max(1)) {
            s.spawn(|| loop {
                let next = queue.lock().unwrap().pop();
                let Some(mk) = next else { break };
                let prog = mk();
                if let Some(only) = &cfg.only {
                    if &prog.model.id != only {
                        continue;
                    }
                }
                let mut rep = Report::new(&cfg.prop);
                rep.programs = 1;
                let r = std::panic::catch_unwind(std::panic::AssertUnwindSafe(|| f(&prog, &cfg, &mut rep)));
                if let Err(p) = r {
                    let msg = p
                        .downcast_ref::<String>()
                        .cloned()
                        .or_else(|| p.downcast_ref::<&str>().map(|s| s.to_string()))
                        .unwrap_or_else(|| "<panic>".into());
                    rep.harness_errors.push(format!("{}: runner panicked: {msg}", prog.model.id));
                }
                merged.lock().unwrap().merge(rep);
            });
        }
    });
    let rep = merged.into_inner().unwrap();
    std::fs::write(&cfg.out, serde_json::to_vec_pretty(&rep).unwrap()).expect("write report");
}
