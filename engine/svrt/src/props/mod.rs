//! Property runners executed inside corpus binaries.

use crate::ops::Prog;
use crate::report::{Failure, Report};
use proptest::strategy::{BoxedStrategy, Strategy, ValueTree};
use proptest::test_runner::{Config, RngAlgorithm, TestCaseError, TestError, TestRng, TestRunner};
use serde_json::{json, Value};
use std::cell::RefCell;
use std::fmt::Debug;
use std::hash::{Hash, Hasher};

pub mod c01;
pub mod c02;
pub mod c03;
pub mod c04;
pub mod c05;
pub mod c06;
pub mod c07;
pub mod c08;
pub mod c09;
pub mod reply;
pub mod c10;
pub mod c11;
pub mod c12;
pub mod rt;
pub mod c16;
pub mod c17;
pub mod docs;

#[derive(Clone, Debug)]
pub struct Cfg {
    pub prop: String,
    pub seed: u64,
    pub cases: u32,
    pub only: Option<String>,
    pub out: String,
    pub replay: Option<String>,
    /// parsed replay file: {"program":..,"salt":..,"case":..}
    pub replay_case: Option<Value>,
    pub known: Vec<String>,
    pub threads: usize,
}

pub fn hash_of<T: Hash>(t: &T) -> u64 {
    let mut h = std::collections::hash_map::DefaultHasher::new();
    t.hash(&mut h);
    h.finish()
}

pub fn seed_for(cfg: &Cfg, program: &str, salt: &str) -> u64 {
    hash_of(&(cfg.seed, &cfg.prop, program, salt))
}

/// Statistics gathered while cases pass (frozen at the first failure so that shrinking
/// re-runs do not inflate the counts).
pub struct Tally<'a> {
    rep: &'a RefCell<Report>,
    frozen: &'a std::cell::Cell<bool>,
}

impl Tally<'_> {
    pub fn class(&self, name: &str) {
        if !self.frozen.get() {
            self.rep.borrow_mut().class(name);
        }
    }
    pub fn nontrivial<T: Hash>(&self, t: &T) {
        if !self.frozen.get() {
            self.rep.borrow_mut().nontrivial(t);
        }
    }
    pub fn sample(&self, v: impl FnOnce() -> Value) {
        if !self.frozen.get() && self.rep.borrow().samples.len() < 6 {
            let v = v();
            self.rep.borrow_mut().sample(v);
        }
    }
}

/// A check failure: `Violation` is a property violation, `Harness` a generator / harness
/// problem (reported as inconclusive).
#[derive(Debug, Clone)]
pub enum Bad {
    Violation { key: String, what: String, detail: Value },
    Harness(String),
}

pub fn viol(key: impl Into<String>, what: impl Into<String>, detail: Value) -> Bad {
    Bad::Violation { key: key.into(), what: what.into(), detail }
}

impl From<String> for Bad {
    fn from(s: String) -> Self {
        if s.starts_with("HARNESS") {
            Bad::Harness(s)
        } else {
            Bad::Harness(format!("HARNESS: {s}"))
        }
    }
}

/// Cases are written to / read from replay files as JSON.
pub trait Case: Debug + Clone + 'static {
    fn to_json(&self) -> Value;
    fn from_json(v: &Value) -> Option<Self>;
}

impl Case for Vec<Value> {
    fn to_json(&self) -> Value {
        Value::Array(self.clone())
    }
    fn from_json(v: &Value) -> Option<Self> {
        v.as_array().cloned()
    }
}

impl Case for Value {
    fn to_json(&self) -> Value {
        self.clone()
    }
    fn from_json(v: &Value) -> Option<Self> {
        Some(v.clone())
    }
}

impl<A: Case, B: Case> Case for (A, B) {
    fn to_json(&self) -> Value {
        json!([self.0.to_json(), self.1.to_json()])
    }
    fn from_json(v: &Value) -> Option<Self> {
        let a = v.as_array()?;
        Some((A::from_json(a.first()?)?, B::from_json(a.get(1)?)?))
    }
}

impl<A: Case, B: Case, C: Case> Case for (A, B, C) {
    fn to_json(&self) -> Value {
        json!([self.0.to_json(), self.1.to_json(), self.2.to_json()])
    }
    fn from_json(v: &Value) -> Option<Self> {
        let a = v.as_array()?;
        Some((A::from_json(a.first()?)?, B::from_json(a.get(1)?)?, C::from_json(a.get(2)?)?))
    }
}

fn record(rep: &mut Report, cfg: &Cfg, program: &str, salt: &str, case: Value, bad: Bad) {
    match bad {
        Bad::Violation { key, what, detail } => {
            let known = cfg.known.iter().any(|k| *k == key);
            rep.failures.push(Failure {
                program: program.to_string(),
                what,
                key,
                detail: json!({"salt": salt, "case": case, "detail": detail, "known": known}),
            })
        }
        Bad::Harness(h) => rep.harness_errors.push(format!("{program}/{salt}: {h} case={case}")),
    }
}

/// Run `cases` generated cases of `strat` through `f`; on failure proptest shrinks the
/// case and the shrunk failure is recorded in the report.  Returns false on failure.
///
/// * Failures whose key is listed in `cfg.known` (known findings) are tolerated: the case
///   is counted under `excluded_known`, the first one is recorded (flagged `known`) and the
///   search goes on, so that a different violation is still found.
/// * In replay mode only the saved case with a matching program / salt is evaluated.
thread_local! {
    /// location and message of the last panic on this thread (filled by the panic hook)
    static LAST_PANIC: RefCell<Option<(String, String)>> = const { RefCell::new(None) };
}

fn install_panic_hook() {
    std::panic::set_hook(Box::new(|info| {
        let loc = info.location().map(|l| format!("{}:{}", l.file(), l.line())).unwrap_or_default();
        let msg = info
            .payload()
            .downcast_ref::<String>()
            .cloned()
            .or_else(|| info.payload().downcast_ref::<&str>().map(|s| s.to_string()))
            .unwrap_or_else(|| "<panic>".into());
        LAST_PANIC.with(|c| *c.borrow_mut() = Some((loc, msg)));
    }));
}

/// Evaluate one case; a panic raised outside the harness' own sources (i.e. in generated code,
/// in the sylvia runtime or below it) is a violation of "handled or rejected cleanly", a panic
/// inside svrt / svmodel is re-raised and ends as a harness error (exit 2).
fn guarded<T>(f: &impl Fn(&T, &Tally) -> Result<(), Bad>, case: &T, tally: &Tally) -> Result<(), Bad> {
    LAST_PANIC.with(|c| *c.borrow_mut() = None);
    match std::panic::catch_unwind(std::panic::AssertUnwindSafe(|| f(case, tally))) {
        Ok(r) => r,
        Err(payload) => {
            let (loc, msg) = LAST_PANIC.with(|c| c.borrow().clone()).unwrap_or_default();
            if loc.is_empty() || loc.contains("engine/svrt/") || loc.contains("engine/svmodel/") {
                std::panic::resume_unwind(payload);
            }
            let class = if loc.contains("/repo/") {
                "sylvia"
            } else if loc.contains("/.cargo/") || loc.contains("/rustc/") {
                "below-sylvia"
            } else {
                "generated-code"
            };
            Err(viol(format!("panic:{class}"), "the code under test panicked instead of returning a result", json!({"location": loc, "message": msg})))
        }
    }
}

pub fn run_cases<T: Case>(
    cfg: &Cfg,
    program: &str,
    salt: &str,
    strat: BoxedStrategy<T>,
    rep: &mut Report,
    f: impl Fn(&T, &Tally) -> Result<(), Bad>,
) -> bool {
    if let Some(replay) = &cfg.replay_case {
        if replay["program"].as_str() != Some(program) || replay["salt"].as_str() != Some(salt) {
            return true;
        }
        let Some(case) = T::from_json(&replay["case"]) else {
            rep.harness_errors.push(format!("{program}/{salt}: replay case does not decode"));
            return false;
        };
        let cell = RefCell::new(Report::default());
        let frozen = std::cell::Cell::new(true);
        let tally = Tally { rep: &cell, frozen: &frozen };
        rep.evaluations += 1;
        return match guarded(&f, &case, &tally) {
            Ok(()) => true,
            Err(bad) => {
                record(rep, cfg, program, salt, case.to_json(), bad);
                false
            }
        };
    }
    let seed = seed_for(cfg, program, salt);
    let mut seed_bytes = [0u8; 32];
    seed_bytes[..8].copy_from_slice(&seed.to_le_bytes());
    seed_bytes[8..16].copy_from_slice(&seed.rotate_left(17).to_le_bytes());
    let config = Config {
        cases: cfg.cases,
        failure_persistence: None,
        max_shrink_iters: 4000,
        ..Config::default()
    };
    let mut runner = TestRunner::new_with_rng(config, TestRng::from_seed(RngAlgorithm::ChaCha, &seed_bytes));
    let cell = RefCell::new(std::mem::take(rep));
    let frozen = std::cell::Cell::new(false);
    let last_bad: RefCell<Option<Bad>> = RefCell::new(None);
    let known_hit: RefCell<Vec<(Value, Bad)>> = RefCell::new(vec![]);
    let evals = std::cell::Cell::new(0u64);
    let result = runner.run(&strat, |case| {
        let tally = Tally { rep: &cell, frozen: &frozen };
        if !frozen.get() {
            evals.set(evals.get() + 1);
        }
        match guarded(&f, &case, &tally) {
            Ok(()) => Ok(()),
            Err(Bad::Violation { key, what, detail }) if !frozen.get() && cfg.known.iter().any(|k| *k == key) => {
                tally.class("excluded_known");
                let mut kh = known_hit.borrow_mut();
                if !kh.iter().any(|(_, b)| matches!(b, Bad::Violation { key: k2, .. } if *k2 == key)) {
                    kh.push((case.to_json(), Bad::Violation { key, what, detail }));
                }
                Ok(())
            }
            Err(bad) => {
                // while shrinking, only a candidate that fails *the same way* (same key) counts
                // as failing: otherwise a violation could shrink into a different failure -- in
                // particular into a case of a recorded finding, and be reported as known
                let key_of = |b: &Bad| match b {
                    Bad::Violation { key, .. } => key.clone(),
                    Bad::Harness(_) => "<harness>".to_string(),
                };
                if frozen.get() {
                    if let Some(first) = last_bad.borrow().as_ref() {
                        if key_of(first) != key_of(&bad) {
                            return Ok(());
                        }
                    }
                }
                frozen.set(true);
                let msg = format!("{:?}", bad);
                *last_bad.borrow_mut() = Some(bad);
                Err(TestCaseError::fail(msg))
            }
        }
    });
    *rep = cell.into_inner();
    rep.evaluations += evals.get();
    for (case, bad) in known_hit.into_inner() {
        record(rep, cfg, program, salt, case, bad);
    }
    match result {
        Ok(()) => true,
        Err(TestError::Fail(_, shrunk)) => {
            // re-evaluate the shrunk case to get its own failure description
            let cell2 = RefCell::new(Report::default());
            let frozen2 = std::cell::Cell::new(true);
            let tally = Tally { rep: &cell2, frozen: &frozen2 };
            let bad = match guarded(&f, &shrunk, &tally) {
                Err(b) => b,
                Ok(()) => last_bad.borrow().clone().unwrap_or(Bad::Harness("HARNESS: shrunk case passes".into())),
            };
            record(rep, cfg, program, salt, shrunk.to_json(), bad);
            false
        }
        Err(TestError::Abort(r)) => {
            rep.harness_errors.push(format!("{program}/{salt}: proptest aborted: {r}"));
            false
        }
    }
}

/// Record a failure found outside `run_cases` (fixed enumerations); honours known findings.
/// Returns true if the run may continue (the failure is a known finding).
pub fn fail_fixed(rep: &mut Report, cfg: &Cfg, program: &str, salt: &str, case: Value, bad: Bad) -> bool {
    let known = matches!(&bad, Bad::Violation { key, .. } if cfg.known.iter().any(|k| k == key));
    if known {
        let key = match &bad {
            Bad::Violation { key, .. } => key.clone(),
            _ => unreachable!(),
        };
        rep.class("excluded_known");
        if rep.failures.iter().any(|f| f.key == key && f.program == program) {
            return true;
        }
    }
    record(rep, cfg, program, salt, case, bad);
    known
}

/// Draw one value from a strategy deterministically (used for per-program fixed samples).
pub fn draw<T: Debug>(strat: &BoxedStrategy<T>, seed: u64) -> T {
    let mut seed_bytes = [0u8; 32];
    seed_bytes[..8].copy_from_slice(&seed.to_le_bytes());
    let mut runner = TestRunner::new_with_rng(Config::default(), TestRng::from_seed(RngAlgorithm::ChaCha, &seed_bytes));
    strat.new_tree(&mut runner).expect("strategy draws").current()
}

/// u64 values with their boundaries (0, 1, MAX, small) next to arbitrary ones.
pub fn u64_edges() -> BoxedStrategy<u64> {
    use proptest::prelude::*;
    prop_oneof![2 => Just(0u64), 1 => Just(1u64), 1 => Just(u64::MAX), 2 => 0u64..8, 4 => any::<u64>()].boxed()
}

pub fn args_strategy(conc: &[svmodel::Ty]) -> BoxedStrategy<Vec<Value>> {
    let v: Vec<BoxedStrategy<Value>> = conc.iter().map(svmodel::json::value_strategy).collect();
    v.boxed()
}

pub type PropFn = fn(&Prog, &Cfg, &mut Report);

pub fn lookup(prop: &str) -> Option<PropFn> {
    match prop {
        "C01" => Some(c01::run),
        "C02" => Some(c02::run),
        "C03" => Some(c03::run),
        "C04" => Some(c04::run),
        "C05" => Some(c05::run),
        "C06" => Some(c06::run),
        "C07" => Some(c07::run),
        "C08" => Some(c08::run),
        "C09" => Some(c09::run),
        "C10" => Some(c10::run),
        "C11" => Some(c11::run),
        "C12" => Some(c12::run),
        "C16" => Some(c16::run),
        "C17" => Some(c17::run),
        "C05A" => Some(rt::c05a),
        "C11A" => Some(rt::c11a),
        "C20" => Some(rt::c20),
        _ => None,
    }
}

pub fn parse_args() -> Cfg {
    let mut cfg = Cfg {
        prop: String::new(),
        seed: 0,
        cases: 64,
        only: None,
        out: "report.json".into(),
        replay: None,
        replay_case: None,
        known: vec![],
        threads: 16,
    };
    let mut it = std::env::args().skip(1);
    while let Some(a) = it.next() {
        let mut val = || it.next().expect("flag value");
        match a.as_str() {
            "--prop" => cfg.prop = val(),
            "--seed" => cfg.seed = val().parse().expect("seed"),
            "--cases" => cfg.cases = val().parse().expect("cases"),
            "--only" => cfg.only = Some(val()),
            "--out" => cfg.out = val(),
            "--replay" => cfg.replay = Some(val()),
            "--known" => cfg.known.push(val()),
            "--threads" => cfg.threads = val().parse().expect("threads"),
            other => panic!("unknown argument {other}"),
        }
    }
    if let Some(path) = &cfg.replay {
        let text = std::fs::read_to_string(path).expect("replay file readable");
        let v: Value = serde_json::from_str(&text).expect("replay file is JSON");
        cfg.only = v["program"].as_str().map(|s| s.to_string());
        cfg.replay_case = Some(v);
    }
    cfg
}

/// Entry point of every corpus binary.
pub fn run_main(programs: Vec<fn() -> Prog>) {
    install_panic_hook();
    let cfg = parse_args();
    let f = lookup(&cfg.prop).unwrap_or_else(|| {
        eprintln!("unknown property {}", cfg.prop);
        std::process::exit(2)
    });
    // runtime-only properties run once
    let mut programs = programs;
    if matches!(cfg.prop.as_str(), "C05A" | "C11A" | "C20") {
        programs.truncate(1);
    }
    let total = programs.len();
    let queue = std::sync::Mutex::new(programs.into_iter().collect::<Vec<_>>());
    let merged = std::sync::Mutex::new(Report::new(&cfg.prop));
    std::thread::scope(|s| {
        for _ in 0..cfg.threads.min(total.max(1)) {
            s.spawn(|| loop {
                let next = queue.lock().unwrap().pop();
                let Some(mk) = next else { break };
                let prog = mk();
                if let Some(only) = &cfg.only {
                    if &prog.model.id != only {
                        continue;
                    }
                }
                let mut rep = Report::new(&cfg.prop);
                rep.programs = 1;
                let r = std::panic::catch_unwind(std::panic::AssertUnwindSafe(|| f(&prog, &cfg, &mut rep)));
                if let Err(p) = r {
                    let msg = p
                        .downcast_ref::<String>()
                        .cloned()
                        .or_else(|| p.downcast_ref::<&str>().map(|s| s.to_string()))
                        .unwrap_or_else(|| "<panic>".into());
                    rep.harness_errors.push(format!("{}: runner panicked: {msg}", prog.model.id));
                }
                merged.lock().unwrap().merge(rep);
            });
        }
    });
    let rep = merged.into_inner().unwrap();
    std::fs::write(&cfg.out, serde_json::to_vec_pretty(&rep).unwrap()).expect("write report");
}
