//! Shared machinery for the reply properties (C07, C08, C09): reply cases, the reference
//! semantics of `dispatch_reply`, and the check of one dispatch against it.

use super::c02::{env_strategy, EnvCase};
use super::*;
use crate::echo::SubSpec;
use crate::harness::{CallOut, Harness, OkRepr};
use crate::ops::{Recv, ReplyDispatch, ReplyIds, SubMsgHelper};
use crate::types::{ErrClass, ErrRepr};
use base64::Engine;
use proptest::prelude::*;
use svmodel::{DataMode, ErrTy, Payload, Program, ReplyMethodView, ReplyOn, ReplyRow, Ty};
use sylvia::cw_std::{Binary, Event, MsgResponse, Reply, SubMsgResponse, SubMsgResult};

pub fn b64(b: &[u8]) -> String {
    base64::engine::general_purpose::STANDARD.encode(b)
}
pub fn unb64(s: &str) -> Vec<u8> {
    base64::engine::general_purpose::STANDARD.decode(s).unwrap_or_default()
}

// ---- minimal protobuf writer (independent of cw_utils) -------------------------------

fn varint(mut n: u64, out: &mut Vec<u8>) {
    loop {
        let b = (n & 0x7f) as u8;
        n >>= 7;
        if n == 0 {
            out.push(b);
            break;
        }
        out.push(b | 0x80);
    }
}
fn len_field(field: u8, bytes: &[u8], out: &mut Vec<u8>) {
    out.push((field << 3) | 2);
    varint(bytes.len() as u64, out);
    out.extend_from_slice(bytes);
}
pub fn exec_envelope(data: Option<&[u8]>) -> Vec<u8> {
    let mut out = vec![];
    if let Some(d) = data {
        len_field(1, d, &mut out);
    }
    out
}
pub fn inst_envelope(addr: &str, data: Option<&[u8]>) -> Vec<u8> {
    let mut out = vec![];
    len_field(1, addr.as_bytes(), &mut out);
    if let Some(d) = data {
        len_field(2, d, &mut out);
    }
    out
}

// ---- cases ----------------------------------------------------------------------------

#[derive(Clone, Debug)]
pub struct ReplyCase {
    /// index into the reply table, or >= len for an unknown id
    pub row: usize,
    pub unknown_id: u64,
    pub ok: bool,
    pub events: Vec<(String, Vec<(String, String)>)>,
    pub data: Option<Vec<u8>>,
    /// class of `data` (informational)
    pub data_class: String,
    pub msg_responses: Vec<(String, Vec<u8>)>,
    pub gas_used: u64,
    pub error_text: String,
    /// model JSON of the payload arguments (raw payload: one base64 string)
    pub payload_args: Vec<Value>,
    /// replace the payload with these bytes (invalid payload class)
    pub garbage_payload: Option<Vec<u8>>,
    pub env: EnvCase,
}

impl Case for ReplyCase {
    fn to_json(&self) -> Value {
        json!({"row": self.row, "unknown_id": self.unknown_id, "ok": self.ok, "events": self.events,
            "data": self.data.as_ref().map(|d| b64(d)), "data_class": self.data_class,
            "msg_responses": self.msg_responses.iter().map(|(t, v)| json!([t, b64(v)])).collect::<Vec<_>>(),
            "gas_used": self.gas_used, "error_text": self.error_text, "payload_args": self.payload_args,
            "garbage_payload": self.garbage_payload.as_ref().map(|d| b64(d)), "env": self.env.json()})
    }
    fn from_json(v: &Value) -> Option<Self> {
        Some(ReplyCase {
            row: v["row"].as_u64()? as usize,
            unknown_id: v["unknown_id"].as_u64()?,
            ok: v["ok"].as_bool()?,
            events: serde_json::from_value(v["events"].clone()).ok()?,
            data: v["data"].as_str().map(unb64),
            data_class: v["data_class"].as_str()?.to_string(),
            msg_responses: v["msg_responses"].as_array()?.iter().map(|m| Some((m[0].as_str()?.to_string(), unb64(m[1].as_str()?)))).collect::<Option<Vec<_>>>()?,
            gas_used: v["gas_used"].as_u64()?,
            error_text: v["error_text"].as_str()?.to_string(),
            payload_args: v["payload_args"].as_array()?.clone(),
            garbage_payload: v["garbage_payload"].as_str().map(unb64),
            env: EnvCase::from_json(&v["env"])?,
        })
    }
}

pub fn method_of<'a>(methods: &'a [ReplyMethodView], name: &Option<String>) -> Option<&'a ReplyMethodView> {
    name.as_ref().and_then(|n| methods.iter().find(|m| &m.name == n))
}

/// payload signature of a row (all covering methods agree by construction)
pub fn row_payload<'a>(methods: &'a [ReplyMethodView], row: &ReplyRow) -> &'a ReplyMethodView {
    method_of(methods, &row.ok).or(method_of(methods, &row.err)).expect("row has a method")
}

pub fn payload_args_strategy(m: &ReplyMethodView) -> BoxedStrategy<Vec<Value>> {
    match &m.spec.payload {
        // mostly small byte strings; one case in 33 is a large payload around the powers of two
        // between 64 KiB and 1 MiB (payloads have no documented size limit)
        Payload::Raw => prop_oneof![
            32 => svmodel::json::value_strategy(&Ty::Binary).prop_map(|v| vec![v]),
            1 => (0usize..9, any::<u8>(), any::<u8>()).prop_map(|(k, a, b)| {
                let n = [65_535usize, 65_536, 131_071, 131_072, 131_073, 200_000, 262_144, 262_145, 1 << 20][k];
                let bytes: Vec<u8> = (0..n).map(|i| if i % 2 == 0 { a } else { b.wrapping_add(i as u8) }).collect();
                vec![Value::String(b64(&bytes))]
            }),
        ]
        .boxed(),
        Payload::Typed(_) => {
            // a text argument is, one case in 33, long enough to push the encoding past 128 KiB / 256 KiB
            let texts: Vec<usize> = m.payload_conc.iter().enumerate().filter(|(_, t)| **t == Ty::Str).map(|(i, _)| i).collect();
            if texts.is_empty() {
                args_strategy(&m.payload_conc)
            } else {
                (args_strategy(&m.payload_conc), 0u32..33, 0usize..4, "[a-z]").prop_map(move |(mut args, big, k, ch)| {
                    if big == 0 {
                        let n = [131_072usize, 140_000, 262_144, 300_000][k];
                        args[texts[k % texts.len()]] = Value::String(ch.repeat(n));
                    }
                    args
                })
                .boxed()
            }
        }
    }
}

/// Data bytes by class for a success method with data mode `mode` / type `ty`.
/// `well` = weight of the well-formed class (C07 uses mostly well-formed data).
pub fn data_strategy(mode: DataMode, ty: &Ty, well: u32) -> BoxedStrategy<(Option<Vec<u8>>, String)> {
    let inner = svmodel::json::value_strategy(ty).prop_map(|v| serde_json::to_vec(&v).unwrap()).boxed();
    let inst = matches!(mode, DataMode::Inst | DataMode::InstOpt);
    let wellformed: BoxedStrategy<Vec<u8>> = match mode {
        DataMode::Absent | DataMode::Raw | DataMode::RawOpt => proptest::collection::vec(any::<u8>(), 0..24).boxed(),
        DataMode::Typed | DataMode::Opt => inner.clone().prop_map(|j| exec_envelope(Some(&j))).boxed(),
        DataMode::Inst | DataMode::InstOpt => ("[a-z0-9]{0,20}", proptest::option::of(proptest::collection::vec(any::<u8>(), 0..12)))
            .prop_map(|(a, d)| inst_envelope(&a, d.as_deref()))
            .boxed(),
    };
    let other_envelope: BoxedStrategy<Vec<u8>> = if inst {
        inner.clone().prop_map(|j| exec_envelope(Some(&j))).boxed()
    } else {
        ("[a-z0-9]{1,12}", inner.clone()).prop_map(|(a, j)| inst_envelope(&a, Some(&j))).boxed()
    };
    let bad_json: BoxedStrategy<Vec<u8>> = (inner.clone(), 0u8..4)
        .prop_map(move |(j, how)| {
            let j2: Vec<u8> = match how {
                0 => b"{\"unexpected\":[1,2".to_vec(),
                1 => {
                    let mut t = j.clone();
                    t.truncate(j.len() / 2);
                    t
                }
                2 => {
                    let mut t = j.clone();
                    t.extend_from_slice(b" trailing");
                    t
                }
                _ => b"[[\"wrong\",\"type\"]]".to_vec(),
            };
            exec_envelope(Some(&j2))
        })
        .boxed();
    let broken_envelope: BoxedStrategy<Vec<u8>> = (wellformed.clone(), 0u8..4, any::<u8>())
        .prop_map(|(w, how, x)| match how {
            0 => {
                // declared length overruns the buffer
                let mut out = vec![0x0a];
                varint(w.len() as u64 + 5 + x as u64, &mut out);
                out.extend_from_slice(&w);
                out
            }
            1 => {
                // wrong wire type for field 1 (varint instead of length-delimited)
                let mut out = vec![0x08, x];
                out.extend_from_slice(&w);
                out
            }
            2 => vec![0x0a, 0xff, 0xff, 0xff, 0xff, 0xff, 0xff, 0xff, 0xff, 0xff, 0xff, 0x01],
            _ => {
                let mut t = w.clone();
                t.truncate(w.len().saturating_sub(1 + (x as usize % 3)));
                t
            }
        })
        .boxed();
    prop_oneof![
        well => wellformed.prop_map(|b| (Some(b), "well-formed".to_string())),
        2 => Just((None, "absent".to_string())),
        2 => broken_envelope.prop_map(|b| (Some(b), "envelope-malformed".to_string())),
        2 => bad_json.prop_map(|b| (Some(b), "json-malformed".to_string())),
        1 => Just((Some(exec_envelope(None)), "envelope-without-data".to_string())),
        1 => other_envelope.prop_map(|b| (Some(b), "other-envelope-kind".to_string())),
        1 => proptest::collection::vec(any::<u8>(), 0..16).prop_map(|b| (Some(b), "random-bytes".to_string())),
    ]
    .boxed()
}

pub fn reply_case_strategy(p: &Program, well: u32, unknown_w: u32, garbage_w: u32) -> BoxedStrategy<ReplyCase> {
    reply_case_strategy_rows(p, well, unknown_w, garbage_w, None)
}

/// `allowed`: restrict the rows the cases are drawn for.
pub fn reply_case_strategy_rows(p: &Program, well: u32, unknown_w: u32, garbage_w: u32, allowed: Option<Vec<usize>>) -> BoxedStrategy<ReplyCase> {
    let rows = p.reply_table();
    let methods = p.reply_methods();
    let n = rows.len();
    let allowed: Vec<usize> = allowed.unwrap_or_else(|| (0..n).collect());
    let na = allowed.len();
    (0..na, any::<bool>(), 0u32..100, 0u32..100)
        .prop_flat_map(move |(ai, ok, u, g)| {
            let unknown = u < unknown_w;
            let ri = allowed[ai.min(na - 1)];
            let row = rows[ri].clone();
            let pm = row_payload(&methods, &row).clone();
            let okm = method_of(&methods, &row.ok).cloned();
            let (mode, ty) = match &okm {
                Some(m) if m.spec.on == ReplyOn::Success => (m.spec.data, m.data_conc.clone()),
                _ => (DataMode::Absent, Ty::U32),
            };
            let garbage = g < garbage_w;
            (
                payload_args_strategy(&pm),
                data_strategy(mode, &ty, well),
                // events as a chain delivers them: also `execute` / `wasm` events whose attribute keys
                // start with an underscore (`_contract_address`), empty attribute lists, empty values
                proptest::collection::vec(
                    (
                        prop_oneof![3 => "[a-z][a-z_]{1,7}", 1 => Just("execute".to_string()), 1 => Just("wasm".to_string()), 1 => Just("wasm-transfer".to_string())],
                        proptest::collection::vec((prop_oneof![4 => "[a-z]{1,6}", 1 => Just("_contract_address".to_string()), 1 => Just("_x".to_string())], "[ -~]{0,8}"), 0..3),
                    ),
                    0..3,
                ),
                proptest::collection::vec(("/[a-z.]{1,12}", proptest::collection::vec(any::<u8>(), 0..8)), 0..2),
                u64_edges(),
                // error texts as a chain produces them: arbitrary text, often behind the Display
                // prefix of an error type (possibly nested), sometimes with non-ASCII / escapes
                prop_oneof![
                    4 => "[ -~]{0,20}".prop_map(|s| s.to_string()),
                    3 => (proptest::sample::select(vec!["Generic error: ", "Overflow: ", "Error parsing into type T: ", "Not found: ", "Generic error: Generic error: ", "error: ", " "]), "[ -~]{0,16}").prop_map(|(p, s)| format!("{p}{s}")),
                    1 => svmodel::json::string_strategy(),
                ],
                proptest::collection::vec(any::<u8>(), 0..12),
                env_strategy(),
                any::<u64>(),
            )
                .prop_map(move |(payload_args, (data, data_class), events, msg_responses, gas_used, error_text, garbage_bytes, env, uid)| ReplyCase {
                    row: if unknown { n } else { ri },
                    unknown_id: uid,
                    ok,
                    events,
                    data,
                    data_class,
                    msg_responses,
                    gas_used,
                    error_text,
                    payload_args,
                    garbage_payload: if garbage { Some(garbage_bytes) } else { None },
                    env,
                })
        })
        .boxed()
}

// ---- reference semantics ----------------------------------------------------------------

#[derive(Debug, Clone, PartialEq)]
pub enum Expect {
    /// dispatcher fails without invoking any handler
    ErrNoHandler,
    /// dispatcher fails with exactly this error without invoking any handler
    ErrExact(ErrRepr),
    /// no method covers a success: events and data passed through
    PassThroughOk,
    /// the method runs with these recorded arguments (None = either Ran(args) or ErrNoHandler is acceptable)
    Ran { method: String, args: Value, check_events: bool },
    /// documentation leaves this cell open: either of the two outcomes
    Either(Box<Expect>, Box<Expect>),
}

fn decode_ty(ty: &Ty, bytes: &[u8]) -> Option<Value> {
    use sylvia::cw_std::from_json;
    match ty {
        Ty::Rec => from_json::<crate::types::Rec>(bytes).ok().map(|v| serde_json::to_value(v).unwrap()),
        Ty::Choice => from_json::<crate::types::Choice>(bytes).ok().map(|v| serde_json::to_value(v).unwrap()),
        Ty::U32 => from_json::<u32>(bytes).ok().map(|v| json!(v)),
        Ty::Str => from_json::<String>(bytes).ok().map(|v| json!(v)),
        Ty::Opt(inner) if **inner == Ty::U32 => from_json::<Option<u32>>(bytes).ok().map(|v| json!(v)),
        Ty::Opt(inner) if **inner == Ty::Rec => from_json::<Option<crate::types::Rec>>(bytes).ok().map(|v| serde_json::to_value(v).unwrap()),
        Ty::Binary => from_json::<sylvia::cw_std::Binary>(bytes).ok().map(|v| serde_json::to_value(v).unwrap()),
        other => panic!("decode_ty: unsupported data type {other:?}"),
    }
}

/// What the documented data-mode table says the `data` parameter is (None = dispatcher error).
fn expect_data(mode: DataMode, ty: &Ty, data: &Option<Vec<u8>>) -> Result<Option<Value>, Option<Value>> {
    // Ok(Some(v)) = delivered v; Ok(None) = error; Err(x) = unspecified cell (either error or x delivered)
    use sylvia::cw_utils::{parse_execute_response_data, parse_instantiate_response_data};
    match mode {
        DataMode::Absent => Ok(Some(Value::Null)),
        DataMode::Raw => Ok(data.as_ref().map(|d| json!(b64(d)))),
        DataMode::RawOpt => Ok(Some(data.as_ref().map(|d| json!(b64(d))).unwrap_or(Value::Null))),
        DataMode::Typed | DataMode::Opt => match data {
            None => Ok(if mode == DataMode::Opt { Some(Value::Null) } else { None }),
            Some(d) => match parse_execute_response_data(d) {
                Err(_) => Ok(None),
                Ok(env) => match env.data {
                    None => {
                        if mode == DataMode::Opt {
                            Err(Some(Value::Null))
                        } else {
                            Ok(None)
                        }
                    }
                    Some(inner) => Ok(decode_ty(ty, inner.as_slice())),
                },
            },
        },
        DataMode::Inst | DataMode::InstOpt => match data {
            None => Ok(if mode == DataMode::InstOpt { Some(Value::Null) } else { None }),
            Some(d) => match parse_instantiate_response_data(d) {
                Err(_) => Ok(None),
                Ok(r) => Ok(Some(crate::echo::inst_json(&r))),
            },
        },
    }
}

pub fn sub_result(case: &ReplyCase) -> SubMsgResult {
    if case.ok {
        #[allow(deprecated)]
        SubMsgResult::Ok(SubMsgResponse {
            events: case
                .events
                .iter()
                .map(|(t, a)| {
                    // decoded from JSON like a real reply (`Event::add_attribute` refuses reserved keys in debug builds)
                    let attrs: Vec<Value> = a.iter().map(|(k, v)| json!({"key": k, "value": v})).collect();
                    serde_json::from_value::<Event>(json!({"type": t, "attributes": attrs})).expect("event decodes")
                })
                .collect(),
            data: case.data.clone().map(Binary::from),
            msg_responses: case.msg_responses.iter().map(|(t, v)| MsgResponse { type_url: t.clone(), value: Binary::from(v.clone()) }).collect(),
        })
    } else {
        SubMsgResult::Err(case.error_text.clone())
    }
}

pub fn contract_err(model: &Program, text: &str) -> ErrRepr {
    match model.contract.error {
        ErrTy::Std => ErrRepr { class: ErrClass::Std, text: format!("Generic error: {text}") },
        ErrTy::Custom => ErrRepr { class: ErrClass::CErrStd, text: format!("Generic error: {text}") },
    }
}

pub fn expected(model: &Program, rows: &[ReplyRow], methods: &[ReplyMethodView], case: &ReplyCase, payload_valid: bool) -> Expect {
    if case.row >= rows.len() {
        return Expect::ErrNoHandler;
    }
    let row = &rows[case.row];
    let covering = if case.ok { method_of(methods, &row.ok) } else { method_of(methods, &row.err) };
    let Some(m) = covering else {
        return if case.ok { Expect::PassThroughOk } else { Expect::ErrExact(contract_err(model, &case.error_text)) };
    };
    if !payload_valid {
        return Expect::ErrNoHandler;
    }
    let mut args = serde_json::Map::new();
    let mut unspecified: Option<Value> = None;
    match m.spec.on {
        ReplyOn::Success => match expect_data(m.spec.data, &m.data_conc, &case.data) {
            Ok(None) => return Expect::ErrNoHandler,
            Ok(Some(v)) => {
                if m.spec.data != DataMode::Absent {
                    args.insert("data".into(), v);
                }
            }
            Err(v) => unspecified = v,
        },
        ReplyOn::Error => {
            args.insert("error".into(), json!(case.error_text));
        }
        ReplyOn::Always => {
            args.insert("result".into(), serde_json::to_value(sub_result(case)).unwrap());
        }
    }
    match &m.spec.payload {
        Payload::Raw => {
            let bytes = case.garbage_payload.clone().map(|g| json!(b64(&g))).unwrap_or_else(|| case.payload_args[0].clone());
            args.insert("payload".into(), bytes);
        }
        Payload::Typed(a) => {
            for (arg, v) in a.iter().zip(&case.payload_args) {
                args.insert(arg.key().to_string(), v.clone());
            }
        }
    }
    let check_events = m.spec.on == ReplyOn::Success;
    if let Some(v) = unspecified {
        let mut with = args.clone();
        with.insert("data".into(), v);
        // keep the declared parameter order irrelevant: args are compared as JSON objects
        return Expect::Either(
            Box::new(Expect::ErrNoHandler),
            Box::new(Expect::Ran { method: m.name.clone(), args: Value::Object(with), check_events }),
        );
    }
    Expect::Ran { method: m.name.clone(), args: Value::Object(args), check_events }
}

/// Build the payload bytes for a row with the generated sub-message builder.
pub fn built_payload(p: &Prog, row: &ReplyRow, payload_args: &[Value]) -> Result<Vec<u8>, Bad> {
    let helper = p.extra::<SubMsgHelper>(&format!("submsg:{}", row.name)).ok_or_else(|| Bad::Harness(format!("HARNESS: no submsg helper for {}", row.name)))?;
    let spec = SubSpec { kind: "wasm_exec".into(), id: 0, gas_limit: None, reply_on: 0, payload: vec![], n: 1, text: "target".into() };
    let sub = (helper.0)(Recv::Wasm(&spec), payload_args).map_err(|e| Bad::Harness(format!("HARNESS: sub-message builder failed: {e}")))?;
    Ok(unb64(sub["payload"].as_str().unwrap_or("")))
}

pub fn check_outcome(model: &Program, case: &ReplyCase, harness: &Harness, out: &CallOut, exp: &Expect, prefix: &str) -> Result<(), Bad> {
    let ran: Vec<String> = out.log.iter().map(|r| r.id.clone()).collect();
    let ctx = json!({"reply": case.to_json(), "ran": ran, "result": format!("{:?}", out.result)});
    match exp {
        Expect::Either(a, b) => {
            if check_outcome(model, case, harness, out, a, prefix).is_ok() {
                return Ok(());
            }
            check_outcome(model, case, harness, out, b, prefix)
        }
        Expect::ErrNoHandler => {
            if !out.log.is_empty() {
                return Err(viol(format!("{prefix}:handler-ran-on-error-path"), "a handler was invoked although the reply must be rejected", ctx));
            }
            if out.result.is_ok() {
                return Err(viol(format!("{prefix}:accepted-invalid"), "dispatcher returned Ok for a reply that must be rejected", ctx));
            }
            Ok(())
        }
        Expect::ErrExact(e) => {
            if !out.log.is_empty() {
                return Err(viol(format!("{prefix}:handler-ran-uncovered"), "a handler ran for an outcome no method covers", ctx));
            }
            match &out.result {
                Err(got) if got == e => Ok(()),
                _ => Err(viol(format!("{prefix}:uncovered-failure"), "an uncovered failure is not answered with that error", json!({"expected": format!("{e:?}"), "ctx": ctx}))),
            }
        }
        Expect::PassThroughOk => {
            if !out.log.is_empty() {
                return Err(viol(format!("{prefix}:handler-ran-uncovered"), "a handler ran for an outcome no method covers", ctx));
            }
            let SubMsgResult::Ok(resp) = sub_result(case) else { unreachable!() };
            #[allow(deprecated)]
            let want = {
                let mut r: sylvia::cw_std::Response<sylvia::cw_std::Empty> = sylvia::cw_std::Response::new().add_events(resp.events.clone());
                r.data = resp.data.clone();
                serde_json::to_value(&r).unwrap()
            };
            match &out.result {
                Ok(OkRepr::Response(v)) if *v == want => Ok(()),
                _ => Err(viol(format!("{prefix}:pass-through"), "an uncovered success is not answered with the sub-message's events and data passed through", json!({"expected": want, "ctx": ctx}))),
            }
        }
        Expect::Ran { method, args, check_events } => {
            let id = format!("ctr::reply::{method}");
            if ran != vec![id.clone()] {
                return Err(viol(format!("{prefix}:wrong-method"), "reply did not invoke exactly the declared method", json!({"expected": id, "ctx": ctx})));
            }
            let rec = &out.log[0];
            if rec.args != *args {
                return Err(viol(format!("{prefix}:args"), "reply handler received different values than the model predicts", json!({"expected": args, "received": rec.args, "ctx": ctx})));
            }
            if rec.extra["gas_used"] != json!(case.gas_used) {
                return Err(viol(format!("{prefix}:gas"), "reply context does not carry the gas used", json!({"expected": case.gas_used, "received": rec.extra["gas_used"]})));
            }
            if rec.env != serde_json::to_value(&harness.env).unwrap() {
                return Err(viol(format!("{prefix}:env"), "reply handler saw a different environment", ctx));
            }
            if rec.sentinel.as_deref() != Some(harness.expected_sentinel().as_str()) {
                return Err(viol(format!("{prefix}:storage"), "reply handler did not reach the caller's storage", ctx));
            }
            if *check_events {
                let SubMsgResult::Ok(resp) = sub_result(case) else { unreachable!() };
                #[allow(deprecated)]
                let (we, wm) = (serde_json::to_value(&resp.events).unwrap(), serde_json::to_value(&resp.msg_responses).unwrap());
                if rec.extra["events"] != we || rec.extra["msg_responses"] != wm {
                    return Err(viol(format!("{prefix}:ctx-events"), "success handler's context lacks the sub-message's events / message responses", json!({"expected_events": we, "received": rec.extra, "ctx": ctx})));
                }
            }
            // caller gets the handler's own outcome
            match (&out.result, rec.returned.get("ok"), rec.returned.get("err")) {
                (Ok(OkRepr::Response(v)), Some(r), _) if v == r => Ok(()),
                (Err(e), _, Some(_)) => {
                    let want = super::c02::expected_err(model, model.contract.error, &id);
                    if *e == want {
                        Ok(())
                    } else {
                        Err(viol(format!("{prefix}:error"), "handler error not returned as the contract's error", json!({"expected": format!("{want:?}"), "got": format!("{e:?}")})))
                    }
                }
                _ => Err(viol(format!("{prefix}:outcome"), "caller did not get the reply handler's own outcome", ctx)),
            }
        }
    }
}

/// Run one reply case through `dispatch_reply` and compare with the reference semantics.
pub fn run_reply_case(p: &Prog, rows: &[ReplyRow], methods: &[ReplyMethodView], ids: &ReplyIds, case: &ReplyCase, prefix: &str, via: u8) -> Result<Expect, Bad> {
    // a name whose two methods mark the payload differently (typed `Binary` / raw): which of the
    // two encodings goes over the wire is the framework's choice, so only builder-made payloads
    // are meaningful there
    let mixed = case.row < rows.len() && {
        let r = &rows[case.row];
        match (method_of(methods, &r.ok), method_of(methods, &r.err)) {
            (Some(a), Some(b)) => std::mem::discriminant(&a.spec.payload) != std::mem::discriminant(&b.spec.payload),
            _ => false,
        }
    };
    let owned;
    let case = if mixed && case.garbage_payload.is_some() {
        owned = ReplyCase { garbage_payload: None, ..case.clone() };
        &owned
    } else {
        case
    };
    let (id, payload, payload_valid) = if case.row >= rows.len() {
        // an id that belongs to no handler
        let mut id = case.unknown_id;
        while ids.0.iter().any(|(_, v)| *v == id) {
            id = id.wrapping_add(ids.0.len() as u64 + 1);
        }
        (id, vec![], true)
    } else {
        let row = &rows[case.row];
        let id = ids.0.iter().find(|(n, _)| *n == row.name).map(|(_, v)| *v).ok_or_else(|| Bad::Harness(format!("HARNESS: no reply id for {}", row.name)))?;
        let pm = row_payload(methods, row);
        match (&case.garbage_payload, &pm.spec.payload) {
            (Some(g), Payload::Raw) => (id, g.clone(), true),
            (Some(g), Payload::Typed(_)) => {
                // garbage is invalid unless it happens to decode as the payload tuple: make sure it does not
                let mut g = g.clone();
                g.insert(0, b'}');
                (id, g, false)
            }
            (None, _) => (id, built_payload(p, row, &case.payload_args)?, true),
        }
    };
    let reply = Reply { id, payload: Binary::from(payload), gas_used: case.gas_used, result: sub_result(case) };
    let mut harness = case.env.harness();
    // route: 0 = generated dispatch_reply, 1 = generated reply entry point, 2 = the reply
    // operation of the generated multitest `cw_multi_test::Contract` impl
    let out = if via == 1 || via == 2 {
        let table = if via == 1 { &p.entries } else { &p.mt_entries };
        let Some(entry) = table.get(&svmodel::Kind::Reply) else { return Err(Bad::Harness("HARNESS: no reply entry point".into())) };
        let bytes = serde_json::to_vec(&reply).unwrap();
        entry(&mut harness, &bytes).map_err(|e| Bad::Harness(format!("HARNESS: reply json: {e}")))?
    } else {
        let d = p.extra::<ReplyDispatch>("dispatch_reply").ok_or_else(|| Bad::Harness("HARNESS: no dispatch_reply glue".into()))?;
        (d.0)(&mut harness, reply)
    };
    let mut exp = expected(&p.model, rows, methods, case, payload_valid);
    if case.env.fail {
        // a failing handler: still the same method, the error is the handler's
        if let Expect::Ran { .. } = &exp {
        } else if let Expect::Either(_, _) = &exp {
        } else if exp == Expect::PassThroughOk {
            exp = Expect::PassThroughOk;
        }
    }
    check_outcome(&p.model, case, &harness, &out, &exp, prefix)?;
    Ok(exp)
}
