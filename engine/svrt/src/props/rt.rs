//! Engine E4: properties of the `sylvia` runtime crate itself (no generated program needed);
//! executed once inside any corpus binary.

use super::*;
use crate::echo::{sub_msg_of, SubSpec};
use proptest::prelude::*;
use sylvia::cw_std::{Addr, Empty, Event, Response};
use sylvia::into_response::IntoResponse;
use sylvia::types::Remote;

// ------------------------------------------------------------------------------------------
// C05(a): assert_no_intersection panics iff two lists share a string

fn call_n(lists: &[Vec<String>]) -> bool {
    // returns true if the function panicked
    let refs: Vec<Vec<&str>> = lists.iter().map(|l| l.iter().map(|s| s.as_str()).collect()).collect();
    let slices: Vec<&[&str]> = refs.iter().map(|v| v.as_slice()).collect();
    macro_rules! go {
        ($n:expr) => {{
            let arr: [&[&str]; $n] = std::array::from_fn(|i| slices[i]);
            std::panic::catch_unwind(|| sylvia::utils::assert_no_intersection(arr)).is_err()
        }};
    }
    match slices.len() {
        0 => go!(0),
        1 => go!(1),
        2 => go!(2),
        3 => go!(3),
        4 => go!(4),
        5 => go!(5),
        6 => go!(6),
        _ => panic!("too many lists"),
    }
}

fn naive(lists: &[Vec<String>]) -> bool {
    for i in 0..lists.len() {
        for j in i + 1..lists.len() {
            if lists[i].iter().any(|s| lists[j].contains(s)) {
                return true;
            }
        }
    }
    false
}

fn interleaved(lists: &[Vec<String>]) -> bool {
    let ne: Vec<&Vec<String>> = lists.iter().filter(|l| !l.is_empty()).collect();
    ne.len() >= 2 && ne.iter().any(|a| ne.iter().any(|b| a.first() < b.first() && b.first() < a.last()))
}

pub fn c05a(_p: &Prog, cfg: &Cfg, rep: &mut Report) {
    // exhaustive small scope: all tuples of N <= 4 lists over subsets of 4 strings with prefixes
    let alphabet = ["a", "ab", "b", "ba"];
    let subsets: Vec<Vec<String>> = (0..16u32).map(|m| alphabet.iter().enumerate().filter(|(i, _)| m & (1 << i) != 0).map(|(_, s)| s.to_string()).collect()).collect();
    if cfg.replay_case.is_none() {
        let mut count = 0u64;
        for n in 0..=4usize {
            let total = 16usize.pow(n as u32);
            for code in 0..total {
                let mut c = code;
                let lists: Vec<Vec<String>> = (0..n)
                    .map(|_| {
                        let l = subsets[c % 16].clone();
                        c /= 16;
                        l
                    })
                    .collect();
                count += 1;
                let got = call_n(&lists);
                let want = naive(&lists);
                if interleaved(&lists) {
                    rep.nontrivial(&lists);
                }
                if got != want {
                    let bad = viol(
                        if want { "merge:missed-overlap" } else { "merge:false-overlap" },
                        "assert_no_intersection panics iff two lists share a string -- violated",
                        json!({"lists": lists, "panicked": got, "shared_string_exists": want}),
                    );
                    if !fail_fixed(rep, cfg, "runtime", "merge-exhaustive", json!(lists), bad) {
                        return;
                    }
                }
            }
        }
        rep.evaluations += count;
        rep.class_n("exhaustive-small-scope", count);
        rep.notes.push(format!("exhaustive: all {count} tuples of 0..=4 lists over subsets of {alphabet:?}"));
    }
    // random lists of arbitrary strings
    let word = prop_oneof![3 => "[a-c]{0,3}", 1 => Just(String::new()), 2 => "[a-z_0-9]{1,8}", 1 => "\\PC{1,4}"];
    let list = proptest::collection::btree_set(word, 0..8).prop_map(|s| s.into_iter().collect::<Vec<String>>());
    let strat = proptest::collection::vec(list, 0..=6).prop_map(|v| json!(v)).boxed();
    let mut c2 = cfg.clone();
    c2.cases = cfg.cases.saturating_mul(40);
    run_cases(&c2, "runtime", "merge-random", strat, rep, |v: &Value, tally| {
        let lists: Vec<Vec<String>> = serde_json::from_value(v.clone()).unwrap();
        // the precondition the generated code establishes: sorted (bytewise), duplicate free
        let mut lists = lists;
        for l in lists.iter_mut() {
            l.sort();
            l.dedup();
        }
        let got = call_n(&lists);
        let want = naive(&lists);
        tally.class(&format!("lists:{}", lists.len()));
        tally.class(if want { "overlap" } else { "disjoint" });
        if interleaved(&lists) {
            tally.nontrivial(&lists);
        }
        tally.sample(|| json!({"lists": lists, "overlap": want}));
        if got != want {
            return Err(viol(
                if want { "merge:missed-overlap" } else { "merge:false-overlap" },
                "assert_no_intersection panics iff two lists share a string -- violated",
                json!({"lists": lists, "panicked": got, "shared_string_exists": want}),
            ));
        }
        Ok(())
    });
}

// ------------------------------------------------------------------------------------------
// C11(a): IntoResponse preserves the response, fails exactly on custom messages

pub const SUB_KINDS: &[&str] = &[
    "bank_send", "bank_burn", "wasm_exec", "wasm_inst", "wasm_inst2", "wasm_migrate", "wasm_update_admin", "wasm_clear_admin", "staking",
    "distribution", "stargate", "ibc", "gov", "custom",
];

/// Reply ids / gas limits with their boundary values (0 is the id sylvia itself gives the
/// first reply handler; u64::MAX the largest).
fn id_strategy() -> BoxedStrategy<u64> {
    u64_edges()
}
fn gas_strategy() -> BoxedStrategy<Option<u64>> {
    proptest::option::of(prop_oneof![1 => Just(0u64), 1 => Just(u64::MAX), 4 => any::<u64>()]).boxed()
}

pub fn sub_spec_strategy(custom_weight: u32) -> BoxedStrategy<SubSpec> {
    let n = SUB_KINDS.len() - 1;
    (
        prop_oneof![20 => (0..n).prop_map(|i| SUB_KINDS[i].to_string()), custom_weight => Just("custom".to_string())],
        id_strategy(),
        gas_strategy(),
        0u8..4,
        proptest::collection::vec(any::<u8>(), 0..10),
        any::<u32>(),
        "[a-z0-9/.]{1,12}",
    )
        .prop_map(|(kind, id, gas_limit, reply_on, payload, n, text)| SubSpec { kind, id, gas_limit, reply_on, payload, n, text })
        .boxed()
}

pub fn resp_spec_strategy(custom_weight: u32) -> BoxedStrategy<crate::echo::RespSpec> {
    (
        proptest::collection::vec(sub_spec_strategy(custom_weight), 0..6),
        proptest::collection::vec(("[a-z][a-z_]{0,7}", "[ -~]{0,10}"), 0..5),
        proptest::collection::vec(("[a-z][a-z_]{1,7}", proptest::collection::vec(("[a-z]{1,6}", "[ -~]{0,8}"), 0..3)), 0..3),
        proptest::option::of(proptest::collection::vec(any::<u8>(), 0..12)),
    )
        .prop_map(|(msgs, attrs, events, data)| crate::echo::RespSpec { msgs, attrs, events, data })
        .boxed()
}

/// Responses without custom-typed messages (every part can return them, bridged or not).
pub fn resp_spec_strategy_plain() -> BoxedStrategy<crate::echo::RespSpec> {
    let n = SUB_KINDS.len() - 1;
    let sub = ((0..n).prop_map(|i| SUB_KINDS[i].to_string()), id_strategy(), gas_strategy(), 0u8..4, proptest::collection::vec(any::<u8>(), 0..10), any::<u32>(), "[a-z0-9/.]{1,12}")
        .prop_map(|(kind, id, gas_limit, reply_on, payload, n, text)| SubSpec { kind, id, gas_limit, reply_on, payload, n, text });
    (
        proptest::collection::vec(sub, 0..4),
        proptest::collection::vec(("[a-z][a-z_]{0,7}", "[ -~]{0,10}"), 0..3),
        proptest::collection::vec(("[a-z][a-z_]{1,7}", proptest::collection::vec(("[a-z]{1,6}", "[ -~]{0,8}"), 0..3)), 0..2),
        proptest::option::of(proptest::collection::vec(any::<u8>(), 0..12)),
    )
        .prop_map(|(msgs, attrs, events, data)| crate::echo::RespSpec { msgs, attrs, events, data })
        .boxed()
}

pub fn response_of(spec: &crate::echo::RespSpec) -> Response<Empty> {
    let mut r: Response<Empty> = Response::new();
    for m in &spec.msgs {
        r = r.add_submessage(sub_msg_of::<Empty>(m));
    }
    for (k, v) in &spec.attrs {
        r = r.add_attribute(k, v);
    }
    for (ty, attrs) in &spec.events {
        let mut e = Event::new(ty);
        for (k, v) in attrs {
            e = e.add_attribute(k, v);
        }
        r = r.add_event(e);
    }
    r.data = spec.data.clone().map(Into::into);
    r
}

pub fn c11a(_p: &Prog, cfg: &Cfg, rep: &mut Report) {
    let strat = resp_spec_strategy(2).prop_map(|s| serde_json::to_value(&s).unwrap()).boxed();
    let mut c2 = cfg.clone();
    c2.cases = cfg.cases.saturating_mul(60);
    run_cases(&c2, "runtime", "into-response", strat, rep, |v: &Value, tally| {
        let spec: crate::echo::RespSpec = serde_json::from_value(v.clone()).unwrap();
        let resp = response_of(&spec);
        let has_custom = spec.msgs.iter().any(|m| m.kind == "custom");
        let before = serde_json::to_value(&resp).unwrap();
        for m in &spec.msgs {
            tally.class(&format!("msg:{}", m.kind));
        }
        tally.class(&format!("submessages:{}", spec.msgs.len().min(5)));
        let ids: std::collections::BTreeSet<u64> = spec.msgs.iter().map(|m| m.id).collect();
        if (spec.msgs.len() >= 2 && ids.len() >= 2 && spec.msgs.iter().any(|m| m.gas_limit.is_some())) || (!spec.events.is_empty() && spec.data.is_some()) {
            tally.nontrivial(&v.to_string());
        }
        tally.sample(|| json!({"response_spec": v}));
        let out = std::panic::catch_unwind(|| IntoResponse::<crate::types::MyMsg>::into_response(resp));
        let Ok(out) = out else {
            return Err(viol("into-response:panic", "into_response panicked", json!({"spec": v})));
        };
        match (has_custom, out) {
            (true, Err(_)) => Ok(()),
            (true, Ok(_)) => Err(viol("into-response:custom-accepted", "a response containing a custom-typed message was converted", json!({"spec": v}))),
            (false, Err(e)) => {
                let kinds: std::collections::BTreeSet<&str> = spec.msgs.iter().map(|m| m.kind.as_str()).collect();
                let culprit = if kinds.contains("stargate") && e.to_string().contains("Unknown message variant") { "stargate" } else { "other" };
                Err(viol(format!("into-response:rejected:{culprit}"), "a response without custom-typed messages fails to convert", json!({"spec": v, "error": e.to_string()})))
            }
            (false, Ok(r)) => {
                let after = serde_json::to_value(&r).unwrap();
                if after != before {
                    Err(viol("into-response:changed", "converted response differs from the original (sub-messages, attributes, events or data)", json!({"before": before, "after": after})))
                } else {
                    Ok(())
                }
            }
        }
    });
}

// ------------------------------------------------------------------------------------------
// C20: a stored remote handle has a stable, type-independent encoding

pub struct SomeContract;
pub trait SomeIface {
    type Error;
    type Param;
}

/// Does the (concrete) type implement `JsonSchema`?  Resolved per call site: the inherent method
/// is chosen when the bound holds, the blanket trait method otherwise -- so a parameterisation
/// that loses its schema is reported at run time instead of breaking the harness' build.
struct SchemaProbe<T: ?Sized>(std::marker::PhantomData<T>);
trait NoSchema {
    fn root(&self) -> Option<Value> {
        None
    }
    fn sub(&self, _g: &mut schemars::gen::SchemaGenerator) -> Option<Value> {
        None
    }
}
impl<T: ?Sized> NoSchema for SchemaProbe<T> {}
impl<T: ?Sized + schemars::JsonSchema> SchemaProbe<T> {
    fn root(&self) -> Option<Value> {
        Some(serde_json::to_value(schemars::schema_for!(T)).unwrap())
    }
    fn sub(&self, g: &mut schemars::gen::SchemaGenerator) -> Option<Value> {
        Some(serde_json::to_value(g.subschema_for::<T>()).unwrap())
    }
}
macro_rules! probe {
    ($t:ty) => {
        SchemaProbe::<$t>(std::marker::PhantomData)
    };
}

fn remote_views<T: ?Sized>(addr: &Addr, schema: Option<Value>) -> Result<(String, String, Value), String> {
    let owned: Remote<'static, T> = Remote::new(addr.clone());
    let borrowed: Remote<'_, T> = Remote::borrowed(addr);
    let a = sylvia::cw_std::to_json_string(&owned).map_err(|e| e.to_string())?;
    let b = sylvia::cw_std::to_json_string(&borrowed).map_err(|e| e.to_string())?;
    let schema = schema.ok_or_else(|| "SCHEMA-MISSING".to_string())?;
    Ok((a, b, schema))
}

fn remote_decode<T: ?Sized>(text: &str) -> Result<String, String> {
    let r: Remote<'static, T> = sylvia::cw_std::from_json(text.as_bytes()).map_err(|e| e.to_string())?;
    let a: &Addr = r.as_ref();
    Ok(a.to_string())
}

pub fn c20(_p: &Prog, cfg: &Cfg, rep: &mut Report) {
    use sylvia::cw_std::StdError;
    use sylvia::schemars;
    let _ = schemars::schema_for!(u8);
    let strat = prop_oneof![
        3 => "[a-z0-9]{1,40}".prop_map(|s| json!(s)),
        2 => svmodel::json::string_strategy().prop_map(|s| json!(s)),
        1 => "cosmwasm1[a-z0-9]{38}".prop_map(|s| json!(s)),
        // long addresses (CosmWasm allows up to 256 bytes; lengths around common limits)
        2 => prop_oneof![Just(89usize), Just(90), Just(91), Just(127), Just(128), Just(255), Just(256), 60usize..400].prop_flat_map(|n| proptest::collection::vec(proptest::sample::select(vec!['a', 'z', '0', '9', 'q']), n)).prop_map(|v| json!(v.into_iter().collect::<String>())),
        // addresses with surrounding / inner whitespace, capitals, empty
        1 => prop_oneof![Just(String::new()), Just(" ".to_string()), "[ \\t]{0,2}[A-Za-z0-9]{1,12}[ \\n]{0,2}"].prop_map(|s| json!(s)),
    ]
    ;
    // second component: an order of parameterisations under which the handles are put into one
    // schema (what a state / message struct with several Remote fields does)
    let strat = (strat, proptest::collection::vec(0usize..5, 1..6)).prop_map(|(a, seq)| json!({"addr": a, "seq": seq})).boxed();
    let mut c2 = cfg.clone();
    c2.cases = cfg.cases.saturating_mul(60);
    run_cases(&c2, "runtime", "remote", strat, rep, |v: &Value, tally| {
        let s = v["addr"].as_str().unwrap();
        let seq: Vec<usize> = v["seq"].as_array().unwrap().iter().map(|x| x.as_u64().unwrap() as usize).collect();
        let addr = Addr::unchecked(s);
        {
            // all parameterisations share ONE schema definition called `Remote`
            let mut g = schemars::gen::SchemaGenerator::default();
            let mut refs = vec![];
            for i in &seq {
                let sub = match i {
                    0 => probe!(Remote<'static, SomeContract>).sub(&mut g),
                    1 => probe!(Remote<'static, ()>).sub(&mut g),
                    2 => probe!(Remote<'static, str>).sub(&mut g),
                    3 => probe!(Remote<'static, dyn SomeIface<Error = StdError, Param = u32>>).sub(&mut g),
                    _ => probe!(Remote<'static, dyn SomeIface<Error = (), Param = String>>).sub(&mut g),
                };
                let Some(sub) = sub else {
                    return Err(viol("remote:schema-missing", "a parameterisation of the handle has no JSON schema", json!({"parameterisation": i})));
                };
                refs.push(sub);
            }
            let defs: Vec<String> = g.definitions().keys().filter(|k| k.starts_with("Remote")).cloned().collect();
            let mut distinct = seq.clone();
            distinct.sort();
            distinct.dedup();
            tally.class(&format!("schema-composition:{}-parameterisations", distinct.len()));
            if defs != vec!["Remote".to_string()] || refs.iter().any(|r| *r != json!({"$ref": "#/definitions/Remote"})) {
                return Err(viol(
                    "remote:schema-name-depends-on-parameter",
                    "handles of different parameterisations used in one schema do not share the single definition `Remote`",
                    json!({"order": seq, "definitions": defs, "references": refs}),
                ));
            }
        }
        let escaping = serde_json::to_string(s).unwrap().len() != s.len() + 2;
        tally.class(if escaping { "address:needs-escaping" } else { "address:plain" });
        tally.nontrivial(&s);
        tally.sample(|| json!({"addr": s}));
        let views = [
            ("SomeContract", remote_views::<SomeContract>(&addr, probe!(Remote<'static, SomeContract>).root())),
            ("unit", remote_views::<()>(&addr, probe!(Remote<'static, ()>).root())),
            ("str(unsized)", remote_views::<str>(&addr, probe!(Remote<'static, str>).root())),
            ("dyn SomeIface<..>", remote_views::<dyn SomeIface<Error = StdError, Param = u32>>(&addr, probe!(Remote<'static, dyn SomeIface<Error = StdError, Param = u32>>).root())),
            ("dyn SomeIface<other>", remote_views::<dyn SomeIface<Error = (), Param = String>>(&addr, probe!(Remote<'static, dyn SomeIface<Error = (), Param = String>>).root())),
        ];
        let want = json!({"addr": s});
        let model_text = want.to_string();
        let mut first: Option<(String, Value)> = None;
        for (label, r) in views {
            let (owned, borrowed, schema) = r.map_err(|e| {
                if e == "SCHEMA-MISSING" {
                    viol("remote:schema-missing", "a parameterisation of the handle has no JSON schema", json!({"type": label}))
                } else {
                    viol("remote:ser-fail", "remote handle does not serialise", json!({"type": label, "error": e}))
                }
            })?;
            if owned != borrowed {
                return Err(viol("remote:owned-vs-borrowed", "owned and borrowed handles encode differently", json!({"type": label, "owned": owned, "borrowed": borrowed})));
            }
            let parsed: Value = serde_json::from_str(&owned).map_err(|e| viol("remote:not-json", "encoding is not JSON", json!({"text": owned, "error": e.to_string()})))?;
            if parsed != want {
                return Err(viol("remote:shape", "remote handle does not encode as {\"addr\": <address>}", json!({"type": label, "expected": want, "got": parsed})));
            }
            match &first {
                None => first = Some((owned.clone(), schema.clone())),
                Some((t0, s0)) => {
                    if *t0 != owned {
                        return Err(viol("remote:type-dependent-bytes", "encoding depends on the type parameter", json!({"type": label, "a": t0, "b": owned})));
                    }
                    if *s0 != schema {
                        return Err(viol("remote:type-dependent-schema", "schema depends on the type parameter", json!({"type": label, "a": s0, "b": schema})));
                    }
                }
            }
            if schema["title"] != json!("Remote") || schema["required"] != json!(["addr"]) || schema["properties"].as_object().map(|o| o.len()) != Some(1) {
                return Err(viol("remote:schema", "schema is not an object titled Remote with the single required property addr", json!({"type": label, "schema": schema})));
            }
        }
        // decoding the model's own text gives back the same address, for every parameterisation
        for (label, d) in [
            ("SomeContract", remote_decode::<SomeContract>(&model_text)),
            ("str(unsized)", remote_decode::<str>(&model_text)),
            ("dyn SomeIface<..>", remote_decode::<dyn SomeIface<Error = StdError, Param = u32>>(&model_text)),
        ] {
            match d {
                Ok(a) if a == s => {}
                other => return Err(viol("remote:decode", "decoding {\"addr\": ..} does not give a handle to the same address", json!({"type": label, "text": model_text, "got": format!("{other:?}")}))),
            }
        }
        // admin helpers address the handle's contract (C10 clause, runtime part)
        let r: Remote<'_, SomeContract> = Remote::borrowed(&addr);
        let ua = serde_json::to_value(r.update_admin("new_admin")).unwrap();
        let ca = serde_json::to_value(r.clear_admin()).unwrap();
        if ua != json!({"update_admin": {"contract_addr": s, "admin": "new_admin"}}) || ca != json!({"clear_admin": {"contract_addr": s}}) {
            return Err(viol("remote:admin-helpers", "update_admin / clear_admin do not address the handle's contract", json!({"update_admin": ua, "clear_admin": ca})));
        }
        Ok(())
    });
}
