//! JSON report written by corpus binaries, consumed by the driver.
use serde::{Deserialize, Serialize};
use serde_json::Value;
use std::collections::{BTreeMap, BTreeSet};

#[derive(Clone, Debug, Default, Serialize, Deserialize)]
pub struct Failure {
    pub program: String,
    pub what: String,
    /// signature used to match known findings
    pub key: String,
    pub detail: Value,
}

#[derive(Clone, Debug, Default, Serialize, Deserialize)]
pub struct Report {
    pub property: String,
    pub programs: usize,
    pub evaluations: u64,
    /// hashes of distinct non-trivial cases
    pub nontrivial: BTreeSet<u64>,
    pub classes: BTreeMap<String, u64>,
    pub samples: Vec<Value>,
    pub failures: Vec<Failure>,
    /// harness-side problems (generator bugs): make the run inconclusive, never a violation
    pub harness_errors: Vec<String>,
    pub notes: Vec<String>,
}

impl Report {
    pub fn new(property: &str) -> Self {
        Report { property: property.to_string(), ..Default::default() }
    }
    pub fn class(&mut self, name: &str) {
        *self.classes.entry(name.to_string()).or_insert(0) += 1;
    }
    pub fn class_n(&mut self, name: &str, n: u64) {
        *self.classes.entry(name.to_string()).or_insert(0) += n;
    }
    pub fn nontrivial<T: std::hash::Hash>(&mut self, case: &T) {
        use std::hash::Hasher;
        let mut h = std::collections::hash_map::DefaultHasher::new();
        case.hash(&mut h);
        self.nontrivial.insert(h.finish());
    }
    pub fn sample(&mut self, v: Value) {
        if self.samples.len() < 6 {
            self.samples.push(v);
        }
    }
    pub fn merge(&mut self, other: Report) {
        self.programs += other.programs;
        self.evaluations += other.evaluations;
        self.nontrivial.extend(other.nontrivial);
        for (k, v) in other.classes {
            *self.classes.entry(k).or_insert(0) += v;
        }
        for s in other.samples {
            self.sample(s);
        }
        self.failures.extend(other.failures);
        self.harness_errors.extend(other.harness_errors);
        self.notes.extend(other.notes);
    }
}
