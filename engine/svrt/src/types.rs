use schemars::JsonSchema;
use serde::{Deserialize, Serialize};
use sylvia::cw_schema::cw_serde;
use sylvia::cw_std::{StdError, Uint128};
use sylvia::schemars;

#[cw_serde]
pub struct Rec {
    pub id: u32,
    pub label: String,
    pub tags: Vec<String>,
    pub amount: Uint128,
    pub opt: Option<bool>,
}

#[cw_serde]
pub enum Choice {
    Unit,
    Pair { a: u32, b: String },
    Wrap(String),
}

#[cw_serde]
pub enum MyMsg {
    Ping { n: u32 },
    Note { text: String },
}

#[cw_serde]
pub enum MyQuery {
    Height {},
}

impl sylvia::cw_std::CustomMsg for Rec {}
impl sylvia::cw_std::CustomMsg for Choice {}
impl sylvia::cw_std::CustomMsg for MyMsg {}
impl sylvia::cw_std::CustomQuery for MyQuery {}

/// Message type taken by the free functions standing in for overridden entry points.
#[cw_serde]
pub struct OvrMsg {
    pub tag: String,
}

/// Query response types (three distinct schemas).
#[cw_serde]
pub struct EchoA {
    pub rec: String,
}
#[cw_serde]
pub struct EchoB {
    pub rec: String,
    pub b: u32,
}
#[cw_serde]
pub struct EchoC {
    pub rec: String,
    pub c: Vec<String>,
}
impl sylvia::cw_std::CustomMsg for EchoA {}

/// Internal twins of the response types: same wire format, different schema name.  Used by
/// query handlers declared `#[sv::msg(query, resp=EchoX)]` whose signature spells
/// `Result<EchoXTwin, _>` (the explicit attribute names the published type).
#[cw_serde]
pub struct EchoATwin {
    pub rec: String,
}
#[cw_serde]
pub struct EchoBTwin {
    pub rec: String,
    pub b: u32,
}
#[cw_serde]
pub struct EchoCTwin {
    pub rec: String,
    pub c: Vec<String>,
}
impl FromRec for EchoATwin {
    fn from_rec(rec: &str) -> Self {
        EchoATwin { rec: rec.to_string() }
    }
}
impl FromRec for EchoBTwin {
    fn from_rec(rec: &str) -> Self {
        EchoBTwin { rec: rec.to_string(), b: rec.len() as u32 }
    }
}
impl FromRec for EchoCTwin {
    fn from_rec(rec: &str) -> Self {
        EchoCTwin { rec: rec.to_string(), c: vec!["c".to_string()] }
    }
}
/// Result alias generic over the response type (for `resp=<type parameter>`).
pub type GenResult<T, E> = Result<T, E>;

pub type EchoAResult<E> = Result<EchoA, E>;
pub type EchoBResult<E> = Result<EchoB, E>;
pub type EchoCResult<E> = Result<EchoC, E>;

/// Lets echo query handlers fabricate a response value from the call record text.
pub trait FromRec {
    fn from_rec(rec: &str) -> Self;
}
impl FromRec for Rec {
    fn from_rec(rec: &str) -> Self {
        Rec { id: rec.len() as u32, label: rec.to_string(), tags: vec![], amount: Uint128::new(7), opt: None }
    }
}
impl FromRec for Choice {
    fn from_rec(rec: &str) -> Self {
        Choice::Wrap(rec.to_string())
    }
}
impl FromRec for MyMsg {
    fn from_rec(rec: &str) -> Self {
        MyMsg::Note { text: rec.to_string() }
    }
}
impl FromRec for sylvia::cw_std::Binary {
    fn from_rec(rec: &str) -> Self {
        sylvia::cw_std::Binary::from(rec.as_bytes())
    }
}
impl FromRec for String {
    fn from_rec(rec: &str) -> Self {
        rec.to_string()
    }
}
impl FromRec for EchoA {
    fn from_rec(rec: &str) -> Self {
        EchoA { rec: rec.to_string() }
    }
}
impl FromRec for EchoB {
    fn from_rec(rec: &str) -> Self {
        EchoB { rec: rec.to_string(), b: rec.len() as u32 }
    }
}
impl FromRec for EchoC {
    fn from_rec(rec: &str) -> Self {
        EchoC { rec: rec.to_string(), c: vec!["c".to_string()] }
    }
}

/// Bound used on generated generic parameters / associated types: everything a message
/// argument needs, plus a way for echo handlers to fabricate a response value.
pub trait Gen: sylvia::types::CustomMsg + FromRec + 'static {}
impl<T: sylvia::types::CustomMsg + FromRec + 'static> Gen for T {}

/// A relation between two generic parameters (`T0: Rel<T1>`), implemented for everything.
pub trait Rel<T> {}
impl<A, B> Rel<B> for A {}

#[derive(thiserror::Error, Debug, PartialEq)]
pub enum CErr {
    #[error("{0}")]
    Std(#[from] StdError),
    #[error("custom failure in {id}")]
    Custom { id: String },
}

/// An error type generic over a parameter of the contract (the parameter occurs only here).
#[derive(Debug)]
pub struct GenErr<T>(pub StdError, pub std::marker::PhantomData<T>);
impl<T> std::fmt::Display for GenErr<T> {
    fn fmt(&self, f: &mut std::fmt::Formatter<'_>) -> std::fmt::Result {
        self.0.fmt(f)
    }
}
impl<T: std::fmt::Debug> std::error::Error for GenErr<T> {}
impl<T> From<StdError> for GenErr<T> {
    fn from(e: StdError) -> Self {
        GenErr(e, std::marker::PhantomData)
    }
}
impl<T> From<GenErr<T>> for StdError {
    fn from(e: GenErr<T>) -> Self {
        e.0
    }
}
impl<T> From<GenErr<T>> for CErr {
    fn from(e: GenErr<T>) -> Self {
        CErr::Std(e.0)
    }
}

/// Can a value of the chain-custom message type be fabricated (for `CosmosMsg::Custom`)?
pub trait MkCustom: Sized {
    fn mk_custom(n: u32) -> Self;
}
impl MkCustom for sylvia::cw_std::Empty {
    fn mk_custom(_n: u32) -> Self {
        sylvia::cw_std::Empty {}
    }
}
impl MkCustom for MyMsg {
    fn mk_custom(n: u32) -> Self {
        MyMsg::Ping { n }
    }
}

#[derive(Clone, Debug, PartialEq, Eq, Serialize, Deserialize, JsonSchema)]
pub enum ErrClass {
    Std,
    CErrStd,
    CErrCustom,
    Other,
}

#[derive(Clone, Debug, PartialEq, Eq, Serialize, Deserialize)]
pub struct ErrRepr {
    pub class: ErrClass,
    pub text: String,
}

pub trait ErrView {
    fn view(&self) -> ErrRepr;
}
impl ErrView for StdError {
    fn view(&self) -> ErrRepr {
        ErrRepr { class: ErrClass::Std, text: self.to_string() }
    }
}
impl ErrView for CErr {
    fn view(&self) -> ErrRepr {
        match self {
            CErr::Std(e) => ErrRepr { class: ErrClass::CErrStd, text: e.to_string() },
            CErr::Custom { id } => ErrRepr { class: ErrClass::CErrCustom, text: id.clone() },
        }
    }
}
impl ErrView for sylvia::anyhow::Error {
    fn view(&self) -> ErrRepr {
        if let Some(e) = self.downcast_ref::<CErr>() {
            e.view()
        } else if let Some(e) = self.downcast_ref::<StdError>() {
            e.view()
        } else {
            ErrRepr { class: ErrClass::Other, text: format!("{:#}", self) }
        }
    }
}
