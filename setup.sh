#!/bin/bash
# Run once after a fresh restore (offline): builds the driver, the expansion server and
# warms the dependency build shared by all generated corpus crates.
set -eu
cd "$(dirname "$0")"
export CARGO_NET_OFFLINE=true
cargo build --offline -q --manifest-path engine/Cargo.toml -p svgen --target-dir target/driver
target/driver/debug/svgen warm
echo "setup done"
