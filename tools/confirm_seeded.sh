#!/bin/bash
# confirm_seeded.sh <ID> <worktree> : re-verify an agent's seeded change in its scratch worktree
# (demo fails with change, passes without, suite passes with change), then store it under
# /verif/seeded/<ID>/.
set -u
export RUST_BACKTRACE=0
ID=$1; WT=$2
cd "$WT" || exit 2
test -f seeded/patch.diff || { echo "no patch"; exit 2; }
DEMO=$(ls seeded/demo/*.rs 2>/dev/null | head -1)
NAME=$(basename "$DEMO" .rs)
# make sure the change is applied
git apply --check -R seeded/patch.diff 2>/dev/null || git apply seeded/patch.diff
cp "$DEMO" sylvia/tests/$NAME.rs
echo "== demo WITH change (expect failure)"
cargo test --workspace --offline --test $NAME 2>&1 | grep -E "^test result|^error: could not compile" | cut -c1-200 | head -3
W=$?
echo "== full suite WITH change (expect all ok)"
mv sylvia/tests/$NAME.rs /tmp/$ID-$NAME.rs.aside
cargo test --workspace --no-fail-fast --offline 2>&1 | grep -E "^test result" | awk '{p+=$4; f+=$6} END {print "passed",p,"failed",f}'
mv /tmp/$ID-$NAME.rs.aside sylvia/tests/$NAME.rs
echo "== demo WITHOUT change (expect pass)"
git apply -R seeded/patch.diff
cargo test --workspace --offline --test $NAME 2>&1 | grep -E "^test result|^error: could not compile" | cut -c1-200 | head -3
git apply seeded/patch.diff
mkdir -p /verif/seeded/$ID
cp -r seeded/patch.diff seeded/demo seeded/meta.json /verif/seeded/$ID/ 2>/dev/null
echo "stored /verif/seeded/$ID"
