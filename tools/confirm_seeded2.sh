#!/bin/bash
# round >= 2: confirm_seeded2.sh <ID> <worktree> <store-name>
set -u
export RUST_BACKTRACE=0
ID=$1; WT=$2; STORE=$3
cd "$WT" || exit 2
test -f seeded/patch.diff || { echo "no patch"; exit 2; }
git apply --check -R seeded/patch.diff 2>/dev/null || git apply seeded/patch.diff
# the worktree predates later fix commits in /repo: check that the patch still applies to /repo HEAD
git -C /repo apply --check "$WT/seeded/patch.diff" 2>/dev/null && echo "patch applies to /repo HEAD" || echo "WARNING: patch does not apply to /repo HEAD"
for DEMO in seeded/demo/*.rs; do
  NAME=$(basename "$DEMO" .rs)
  cp "$DEMO" sylvia/tests/$NAME.rs
done
for d in seeded/demo/*/; do [ -d "$d" ] && cp -r "$d" sylvia/tests/; done
echo "== demos WITH change (expect failure)"
for DEMO in seeded/demo/*.rs; do NAME=$(basename "$DEMO" .rs); cargo test --workspace --offline --test $NAME 2>&1 | grep -E "^test result|^error: could not compile" | cut -c1-160 | head -2; done
echo "== full suite WITH change (expect all ok)"
mkdir -p /tmp/aside_$ID; for DEMO in seeded/demo/*.rs; do NAME=$(basename "$DEMO" .rs); mv sylvia/tests/$NAME.rs /tmp/aside_$ID/; done
cargo test --workspace --no-fail-fast --offline 2>&1 | grep -E "^test result" | awk '{p+=$4; f+=$6} END {print "passed",p,"failed",f}'
mv /tmp/aside_$ID/*.rs sylvia/tests/
echo "== demos WITHOUT change (expect pass)"
git apply -R seeded/patch.diff
for DEMO in seeded/demo/*.rs; do NAME=$(basename "$DEMO" .rs); cargo test --workspace --offline --test $NAME 2>&1 | grep -E "^test result|^error: could not compile" | cut -c1-160 | head -2; done
git apply seeded/patch.diff
mkdir -p /verif/seeded/$STORE
cp -r seeded/patch.diff seeded/demo seeded/meta.json /verif/seeded/$STORE/ 2>/dev/null
echo "stored /verif/seeded/$STORE"
