#!/bin/bash
# run_all.sh <tier> [seed] : run every registered check once; print one verdict line per check.
TIER=${1:-quick}; SEED=${2:-0}
cd /verif
for i in 01 02 03 04 05 06 07 08 09 10 11 12 13 14 15 16 17 18 19 20; do
  start=$(date +%s)
  out=$(VERIF_SEED=$SEED ./check C$i --tier $TIER 2>&1 | grep -v "^proptest")
  code=$?
  echo "C$i seed=$SEED $(( $(date +%s) - start ))s :: $(echo "$out" | grep -cE '^VIOLATION') viol :: $(echo "$out" | grep -E '^INCONCLUSIVE' | cut -c1-200) :: $(echo "$out" | tail -1 | cut -c1-150)"
  echo "$out" | grep -E "^  key=" | sort | uniq -c | head -5
done
