#!/bin/bash
# run_seeded.sh <seeded-id> <check-id>... : apply /verif/seeded/<id>/patch.diff to /repo, run the
# given checks (quick tier), print their verdict lines, and undo the change straight afterwards.
set -u
SID=$1; shift
cd /verif
git -C /repo diff --quiet || { echo "/repo has uncommitted changes"; exit 2; }
git -C /repo apply /verif/seeded/$SID/patch.diff || { echo "patch does not apply"; exit 2; }
trap 'git -C /repo checkout -- . ; rm -rf /verif/replays_seeded_tmp' EXIT
for c in "$@"; do
  out=$(./check $c --tier quick 2>&1 | grep -v "^proptest")
  code=$?
  echo "--- seeded=$SID check=$c : $(echo "$out" | grep -cE '^VIOLATION') violation line(s); summary: $(echo "$out" | tail -1 | cut -c1-160)"
  echo "$out" | grep -E "^  key=|^INCONCLUSIVE|^KNOWN" | sort | uniq -c | sort -rn | head -6 | cut -c1-260
done
